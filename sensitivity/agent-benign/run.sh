#!/usr/bin/env bash
# Runs the stress test demo_seed.rs against whatever is currently in the
# worktree (unpatched, or with one of b1..b5 applied).
#   demo/run.sh            test the tree as it is
#   demo/run.sh all        test the unpatched tree and then each b<i>.diff in turn
set -euo pipefail
here="$(cd "$(dirname "$0")" && pwd)"
root="$(cd "$here/.." && pwd)"
export CARGO_NET_OFFLINE=true

run_once() {
    local refs
    refs="$(mktemp -u "${TMPDIR:-/tmp}/demo_seed_refs.XXXXXX")"
    cp "$here/demo_seed.rs" "$root/visitor/tests/demo_seed.rs"
    trap 'rm -f "$root/visitor/tests/demo_seed.rs" "$refs"' RETURN
    # two processes: the second one must reproduce the references of the first
    for pass in 1 2; do
        (cd "$root" && DEMO_SEED_REFS="$refs" cargo test --offline -q -p swc-vue-jsx-visitor \
            --test demo_seed -- --nocapture) || { echo "demo_seed: FAILED (process $pass)"; return 1; }
    done
    echo "demo_seed: PASSED (2 processes)"
}

if [ "${1:-}" = "all" ]; then
    cd "$root"
    if [ -n "$(git status --porcelain -- visitor plugin)" ]; then
        echo "worktree not clean, refusing 'all'"; exit 2
    fi
    echo "=== unpatched"; run_once
    for i in 1 2 3 4 5; do
        echo "=== b$i.diff"
        git apply "$here/b$i.diff"
        status=0; run_once || status=$?
        git apply -R "$here/b$i.diff"
        git clean -fdq visitor plugin
        [ $status -eq 0 ] || exit $status
    done
    echo "ALL PASSED"
else
    run_once
fi
