//! Stress test for "the transform is total and deterministic".
//!
//! Every (source, options) pair is first compiled ALONE (nothing else has run
//! in the process yet); that result is the reference. Afterwards the same
//! pairs are compiled many times
//!   * sequentially, with a fresh `Globals` per file and with one shared `Globals`,
//!   * after transforms that were aborted by a caught panic
//!     (no `HANDLER` installed, no `GLOBALS` installed, a panicking emitter),
//!   * on several threads of this process at once (shared and per-file
//!     `Globals`), with more aborted transforms mixed in,
//! and every single result (printed code + collected diagnostics) must be
//! byte-identical to the reference.
//!
//! If `DEMO_SEED_REFS` names a file, the references are written there on the
//! first run and compared on later runs, which checks "fresh process" too.

use std::{
    panic::{self, catch_unwind, AssertUnwindSafe},
    rc::Rc,
    sync::{Arc, Barrier, Mutex},
    thread,
};
use swc_core::{
    common::{
        comments::SingleThreadedComments,
        errors::{DiagnosticBuilder, Emitter, Handler, HANDLER},
        sync::Lrc,
        FileName, FilePathMapping, Globals, Mark, SourceMap, GLOBALS,
    },
    ecma::{
        ast::Program,
        parser::{lexer::Lexer, Parser, StringInput, Syntax, TsSyntax},
        transforms::{base::resolver, testing::Tester},
        visit::visit_mut_pass,
    },
};
use swc_vue_jsx_visitor::{Options, Regex, VueJsxTransformVisitor};

const THREADS: usize = 8;
const SEQ_ROUNDS: usize = 12;
const THREAD_ROUNDS: usize = 10;

// ---------------------------------------------------------------- inputs ----

fn sources() -> Vec<(&'static str, String)> {
    let basic = r#"
import { ref, KeepAlive } from 'vue';
import Comp from './comp';
let a = <A>{a}</A>;
a = <A>{a}</A>;
const text = <div class="x" title="  a	b
   c  ">
    hello
      world	!
    {count}
    <span>  inner text </span>
</div>;
const frag = <><p>one</p><>two</></>;
const comps = <Comp foo={1} onClick={f} {...rest} class="a" class={b} onClick={g} style="s" style={t}>
    <Inner>{slot}</Inner>
    <Unknown v-slots={{ named: () => 1 }}>{() => 1}</Unknown>
    <KeepAlive><Comp /></KeepAlive>
    <my-widget x-y="1"><x-thing /></my-widget>
    <svg><circle r="1" /></svg>
</Comp>;
const slots = <A>{<B>{<C>{foo()}</C>}</B>}</A>;
const slots2 = () => <A>{<B>{bar()}</B>}<C>{baz()}</C></A>;
const dirs = <div>
    <input v-model={val} />
    <input type="checkbox" v-model_trim_lazy={val} />
    <input type={t} v-model={[val, ['zeta', 'alpha', 'mid', 'alpha']]} />
    <select v-model={[val, 'arg', ['b', 'a']]} />
    <textarea v-model={val} />
    <Comp v-model={[val, 'title', ['z', 'y', 'x']]} v-model:other_c_b_a={o} />
    <Comp v-models={[[foo, ['q', 'p']], [bar, 'bar', ['n', 'm']]]} />
    <p v-show={ok} v-custom_z_y_a={v} vOther={[v2, 'arg', ['k', 'j', 'i', 'h']]} v-third:arg_m2_m1={v3} />
    <p v-html={html} />
    <p v-text={txt} />
    <p on={{ click: h }} nativeOn={{ x: y }} ref="r" key="k" />
</div>;
"#
    .to_string();

    let types = r#"
import { defineComponent, type SetupContext } from 'vue';
import type { Ext } from './ext';
interface Base { id: number; name?: string; cb(): void; get g(): string }
interface Base { extra: boolean | null }
interface Props extends Base { list: string[]; map: Map<string, number>; fn: () => void; 'quoted-key': Date; u: string | number | undefined }
type Alias = Props & { more: 1 | 'two' | true };
type Keys = 'id' | 'name';
interface SelfRef extends SelfRef { x: SelfRef['x'] }
interface MutA extends MutB { a: MutB['b'] }
interface MutB extends MutA { b: MutA['a'] }
type Cyc1 = Cyc2; type Cyc2 = Cyc1 & { z: Cyc1 };
type Loop = Loop['k'];
const C1 = defineComponent((props: Alias, ctx: SetupContext<{ change(v: number): void; 'update:x': [v: string] }>) => () => <div>{props.id}</div>);
const C2 = defineComponent((props: Pick<Props, Keys> & Partial<Omit<Props, 'list' | 'map'>> = { id: 1, name }, { emit }: SetupContext<((e: 'a' | 'b') => void) & ((e: 'c', n: number) => void)>) => () => <p />);
const C3 = defineComponent(function (props: Required<Base> = defaults()) { return () => <C2 /> }, { inheritAttrs: false });
const C4 = defineComponent((props: SelfRef) => () => null);
const C5 = defineComponent((props: MutA) => () => null, other);
const C6 = defineComponent((props: Cyc1) => () => null);
const C7 = defineComponent((props: { k: Loop; i: Props['list'][number]; t: [string, number][0] }) => () => null);
const C8 = defineComponent((props: External & Unknown<string>, ctx: SetupContext<Missing>) => () => null);
const C9 = defineComponent((props: Ext & Pick<Props, Ext>, ctx: SetupContext<(e: Ext) => void>) => () => null);
"#
    .to_string();

    let malformed = r#"
import Imported from 'elsewhere';
const a = <A v-models={1} />;
const b = <A v-models="str" />;
const c = <A v-models />;
const d = <input v-model="lit" />;
const e = <input v-model />;
const f = <input v-model=<b /> />;
const g = <input v-model=<></> />;
const h = <p v-html="raw" v-text=<i /> />;
const i = <p v-html=<></> />;
const j = <p v-html v-text>{}{/* c */}</p>;
const j2 = <p v-text />;
const k = <p v-show v-show="s" v-show=<u /> v-show=<></> />;
const l = <Comp v-slots v-slots="s" v-slots=<a /> v-slots={[,]} />;
const m = <p v-custom={[]} v-other={[,]} v-third={[, , [, 'm', ...r]]} v-fourth={[v, , ['x']]} />;
const n = <Comp v-model={[]} v-model:x={[, ,]} v-models={[, [a, , ['m']], [...s], [b, 'n', [, 'k']], 3]} />;
const o = <input v-model={[v, [, 'b', , 'a']]} attr=<em /> other=<></> />;
const holes = <A list={[, 1, , [, ], ]}>{[, <B />, , ]}{...spread}</A>;
"#
    .to_string();

    let mut deep = String::from("const deep = ");
    const DEPTH: usize = 48;
    for i in 0..DEPTH {
        match i % 4 {
            0 => deep.push_str("<div class={c}>"),
            1 => deep.push_str("<Comp v-show={s}>"),
            2 => deep.push_str("<>"),
            _ => deep.push_str("<Other>{"),
        }
    }
    deep.push_str("<i>  leaf\ttext </i>");
    for i in (0..DEPTH).rev() {
        match i % 4 {
            0 => deep.push_str("</div>"),
            1 => deep.push_str("</Comp>"),
            2 => deep.push_str("</>"),
            _ => deep.push_str("}</Other>"),
        }
    }
    deep.push_str(";\n");

    vec![
        ("basic", basic),
        ("types", types),
        ("malformed", malformed),
        ("deep", deep),
    ]
}

fn option_sets() -> Vec<(&'static str, Options)> {
    vec![
        ("default", Options::default()),
        (
            "optimize+on-merge",
            Options {
                optimize: true,
                transform_on: true,
                merge_props: false,
                ..Default::default()
            },
        ),
        (
            "types+custom+pragma",
            Options {
                resolve_type: true,
                optimize: true,
                custom_element_patterns: vec![
                    Regex::new("^my-").unwrap(),
                    Regex::new("^x-").unwrap(),
                ],
                pragma: Some("h".into()),
                ..Default::default()
            },
        ),
        (
            "noslots+types",
            Options {
                enable_object_slots: false,
                resolve_type: true,
                custom_element_patterns: vec![Regex::new("^Other$").unwrap()],
                ..Default::default()
            },
        ),
    ]
}

// -------------------------------------------------------------- compiler ----

#[derive(Clone, PartialEq, Eq, Debug)]
struct Outcome {
    code: String,
    diagnostics: Vec<String>,
}

struct Collect(Arc<Mutex<Vec<String>>>);

impl Emitter for Collect {
    fn emit(&mut self, db: &DiagnosticBuilder<'_>) {
        let span = db
            .span
            .primary_span()
            .map(|span| format!("{}..{}", span.lo.0, span.hi.0))
            .unwrap_or_else(|| "-".into());
        self.0
            .lock()
            .unwrap_or_else(|e| e.into_inner())
            .push(format!("{:?} {} {}", db.level, span, db.message()));
    }
}

struct PanickingEmitter;

impl Emitter for PanickingEmitter {
    fn emit(&mut self, _: &DiagnosticBuilder<'_>) {
        panic!("demo_seed: emitter blew up on purpose");
    }
}

fn syntax() -> Syntax {
    Syntax::Typescript(TsSyntax {
        tsx: true,
        ..Default::default()
    })
}

fn parse(cm: &Lrc<SourceMap>, comments: &SingleThreadedComments, src: &str) -> Program {
    let fm = cm.new_source_file(
        Lrc::new(FileName::Custom("input.tsx".into())),
        src.to_string(),
    );
    let mut parser = Parser::new_from(Lexer::new(
        syntax(),
        Default::default(),
        StringInput::from(&*fm),
        Some(comments),
    ));
    let module = parser
        .parse_module()
        .unwrap_or_else(|err| panic!("demo source must parse: {err:?}\n{src}"));
    assert!(
        parser.take_errors().is_empty(),
        "demo source must parse cleanly"
    );
    Program::Module(module)
}

/// Parse + resolver + transform + print. `GLOBALS` must be set by the caller.
fn compile(src: &str, options: &Options) -> Outcome {
    let cm = Lrc::new(SourceMap::new(FilePathMapping::empty()));
    let diagnostics = Arc::new(Mutex::new(vec![]));
    let handler = Handler::with_emitter(true, false, Box::new(Collect(diagnostics.clone())));
    let comments = SingleThreadedComments::default();

    let code = HANDLER.set(&handler, || {
        let program = parse(&cm, &comments, src);
        let unresolved_mark = Mark::new();
        let top_level_mark = Mark::new();
        let program = program.apply((
            resolver(unresolved_mark, top_level_mark, true),
            visit_mut_pass(VueJsxTransformVisitor::new(
                options.clone(),
                unresolved_mark,
                Some(comments.clone()),
            )),
        ));
        let comments = Rc::new(comments.clone());
        Tester {
            cm: cm.clone(),
            handler: &handler,
            comments: comments.clone(),
        }
        .print(&program, &comments)
    });

    let diagnostics = diagnostics
        .lock()
        .unwrap_or_else(|e| e.into_inner())
        .clone();
    Outcome { code, diagnostics }
}

fn compile_fresh(src: &str, options: &Options) -> Outcome {
    GLOBALS.set(&Globals::new(), || compile(src, options))
}

// ------------------------------------------------------ aborted transforms ----

/// Runs transforms that die half way through with a panic, which is caught.
/// Returns how many of them really panicked.
fn aborted_transforms(options: &Options) -> usize {
    let mut panicked = 0;

    // (1) No HANDLER installed: the first diagnostic panics in `HANDLER.with`,
    //     in the middle of the module visit.
    let no_handler = "const x = <div>some text<A v-models={1}>{y}</A><p v-text /></div>;";
    // (2) A diagnostics emitter that panics.
    let bad_emitter = "import { defineComponent } from 'vue';\n\
        const C = defineComponent((props: Nope) => () => <b v-model='s'>t</b>);\n\
        const y = <div>more text<A v-models='s'>{y}</A></div>;";
    // (3) No GLOBALS installed: creating the first private identifier panics
    //     (here: the `createTextVNode` import for a text child).
    let no_globals = "const z = <div title='  t  '>  yet\tmore\n text  <A>{z}</A></div>;";

    let result = catch_unwind(AssertUnwindSafe(|| {
        GLOBALS.set(&Globals::new(), || {
            let cm = Lrc::new(SourceMap::new(FilePathMapping::empty()));
            let comments = SingleThreadedComments::default();
            let program = parse(&cm, &comments, no_handler);
            let unresolved_mark = Mark::new();
            program.apply((
                resolver(unresolved_mark, Mark::new(), true),
                visit_mut_pass(VueJsxTransformVisitor::new(
                    options.clone(),
                    unresolved_mark,
                    Some(comments.clone()),
                )),
            ))
        })
    }));
    panicked += result.is_err() as usize;

    let result = catch_unwind(AssertUnwindSafe(|| {
        GLOBALS.set(&Globals::new(), || {
            let cm = Lrc::new(SourceMap::new(FilePathMapping::empty()));
            let handler = Handler::with_emitter(true, false, Box::new(PanickingEmitter));
            let comments = SingleThreadedComments::default();
            HANDLER.set(&handler, || {
                let program = parse(&cm, &comments, bad_emitter);
                let unresolved_mark = Mark::new();
                program.apply((
                    resolver(unresolved_mark, Mark::new(), true),
                    visit_mut_pass(VueJsxTransformVisitor::new(
                        Options {
                            resolve_type: true,
                            ..options.clone()
                        },
                        unresolved_mark,
                        Some(comments.clone()),
                    )),
                ))
            })
        })
    }));
    panicked += result.is_err() as usize;

    let result = catch_unwind(AssertUnwindSafe(|| {
        // neither GLOBALS nor HANDLER
        let cm = Lrc::new(SourceMap::new(FilePathMapping::empty()));
        let comments = SingleThreadedComments::default();
        let program = parse(&cm, &comments, no_globals);
        program.apply(visit_mut_pass(VueJsxTransformVisitor::new(
            options.clone(),
            Mark::root(),
            Some(comments.clone()),
        )))
    }));
    panicked += result.is_err() as usize;

    panicked
}

// ------------------------------------------------------------------ test ----

struct Job {
    name: String,
    src: String,
    options: Options,
    reference: Outcome,
}

fn check(job: &Job, got: &Outcome, phase: &str) {
    if *got != job.reference {
        panic!(
            "NON-DETERMINISM in phase `{phase}` for {}\n--- reference (compiled alone first)\n{}\n{:#?}\n--- got\n{}\n{:#?}",
            job.name, job.reference.code, job.reference.diagnostics, got.code, got.diagnostics
        );
    }
}

fn body() {
    // 0. references: each pair compiled alone, before anything else.
    let jobs: Vec<Job> = sources()
        .into_iter()
        .flat_map(|(src_name, src)| {
            option_sets().into_iter().map(move |(opt_name, options)| {
                let reference = compile_fresh(&src, &options);
                Job {
                    name: format!("{src_name} x {opt_name}"),
                    src: src.clone(),
                    options,
                    reference,
                }
            })
        })
        .collect();

    // sanity: the inputs exercise what they are meant to exercise
    let all_code: String = jobs.iter().map(|job| &*job.reference.code).collect();
    let all_diags: String = jobs
        .iter()
        .flat_map(|job| job.reference.diagnostics.iter().map(|d| &**d))
        .collect();
    for needle in [
        "createVNode",
        "createTextVNode",
        "withDirectives",
        "mergeProps",
        "_slot2",
        "_isSlot",
        "_transformOn",
        "resolveComponent",
        "vModelCheckbox",
        "vModelDynamic",
        "modelModifiers",
        "innerHTML",
        "required:",
        "emits:",
        "h(",
    ] {
        assert!(all_code.contains(needle), "no `{needle}` in any output");
    }
    for needle in ["v-models", "`v-model`", "`v-html`", "`v-text`", "circular", "Unresolvable", "other modules"]
    {
        assert!(all_diags.contains(needle), "no `{needle}` diagnostic");
    }

    // cross-process check
    if let Ok(path) = std::env::var("DEMO_SEED_REFS") {
        let dump: String = jobs
            .iter()
            .map(|job| {
                format!(
                    "==== {}\n{}\n---- diagnostics\n{}\n",
                    job.name,
                    job.reference.code,
                    job.reference.diagnostics.join("\n")
                )
            })
            .collect();
        match std::fs::read_to_string(&path) {
            Ok(previous) => assert!(
                previous == dump,
                "references differ from the ones an earlier process wrote to {path}"
            ),
            Err(_) => std::fs::write(&path, dump).unwrap(),
        }
    }

    // the aborted transforms print their panic messages; keep the log readable
    let default_hook = panic::take_hook();
    panic::set_hook(Box::new(move |info| {
        let message = info.to_string();
        if message.contains("NON-DETERMINISM") || message.contains("demo_seed check") {
            default_hook(info);
        }
    }));

    // 1. sequential, fresh Globals per file
    for _ in 0..SEQ_ROUNDS {
        for job in &jobs {
            check(job, &compile_fresh(&job.src, &job.options), "sequential/fresh");
        }
    }

    // 2. sequential, one shared Globals, reverse order
    let shared = Globals::new();
    for _ in 0..SEQ_ROUNDS {
        for job in jobs.iter().rev() {
            let got = GLOBALS.set(&shared, || compile(&job.src, &job.options));
            check(job, &got, "sequential/shared");
        }
    }

    // 3. after aborted transforms
    let mut aborted = 0;
    for job in &jobs {
        aborted += aborted_transforms(&job.options);
        check(job, &compile_fresh(&job.src, &job.options), "after-abort/fresh");
        let got = GLOBALS.set(&shared, || compile(&job.src, &job.options));
        check(job, &got, "after-abort/shared");
    }
    assert_eq!(aborted, 3 * jobs.len(), "demo_seed check: every abort scenario must panic");

    // 4. several threads at once
    let jobs = Arc::new(jobs);
    let shared = Arc::new(Globals::new());
    let barrier = Arc::new(Barrier::new(THREADS));
    let handles: Vec<_> = (0..THREADS)
        .map(|t| {
            let jobs = jobs.clone();
            let shared = shared.clone();
            let barrier = barrier.clone();
            thread::Builder::new()
                .stack_size(64 << 20)
                .spawn(move || {
                    barrier.wait();
                    let n = jobs.len();
                    for round in 0..THREAD_ROUNDS {
                        for i in 0..n {
                            // every thread walks the jobs in its own order
                            let index = if t % 2 == 0 {
                                (i + t * 3 + round) % n
                            } else {
                                (n - 1) - ((i + t * 5 + round) % n)
                            };
                            let job = &jobs[index];
                            if (i + t + round) % 7 == 0 {
                                aborted_transforms(&job.options);
                            }
                            let use_shared = (i + round + t / 2) % 2 == 0;
                            let got = if use_shared {
                                GLOBALS.set(&shared, || compile(&job.src, &job.options))
                            } else {
                                compile_fresh(&job.src, &job.options)
                            };
                            check(
                                job,
                                &got,
                                if use_shared {
                                    "threads/shared"
                                } else {
                                    "threads/fresh"
                                },
                            );
                        }
                    }
                })
                .unwrap()
        })
        .collect();
    let mut failed = false;
    for handle in handles {
        failed |= handle.join().is_err();
    }
    assert!(!failed, "demo_seed check: a worker thread failed");

    // 5. and once more alone, after all of the above
    for job in jobs.iter() {
        check(job, &compile_fresh(&job.src, &job.options), "final/fresh");
    }
}

#[test]
fn demo_seed() {
    // deep JSX needs more stack than the default test thread has in debug builds
    let result = thread::Builder::new()
        .stack_size(64 << 20)
        .spawn(body)
        .unwrap()
        .join();
    let _ = panic::take_hook();
    assert!(result.is_ok(), "demo_seed failed (see output above)");
}
