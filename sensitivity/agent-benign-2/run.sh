#!/usr/bin/env bash
# Runs the stress test demo/demo_seed.rs against whatever is currently in the
# worktree (unpatched, or with one of demo/b<i>.diff applied).
#
#   demo/run.sh            # test the tree as it is
#   demo/run.sh all        # unpatched tree, then each of b1..b5 applied alone
#                          # (needs a clean visitor/ and plugin/; restores them)
set -euo pipefail
here="$(cd "$(dirname "${BASH_SOURCE[0]}")" && pwd)"
root="$(cd "$here/.." && pwd)"
cd "$root"

run_once() {
    cp "$here/demo_seed.rs" visitor/tests/demo_seed.rs
    trap 'rm -f "$root/visitor/tests/demo_seed.rs"' EXIT
    local status=0
    CARGO_NET_OFFLINE=true cargo test --offline -p swc-vue-jsx-visitor --test demo_seed -- --nocapture || status=$?
    rm -f visitor/tests/demo_seed.rs
    trap - EXIT
    return $status
}

if [ "${1:-}" = "all" ]; then
    if [ -n "$(git status --porcelain -- visitor plugin)" ]; then
        echo "visitor/ or plugin/ is not clean; refusing to apply patches" >&2
        exit 2
    fi
    echo "=== unpatched ==="
    run_once
    for i in 1 2 3 4 5; do
        echo "=== b$i.diff ==="
        git apply "$here/b$i.diff"
        status=0
        run_once || status=$?
        git checkout -- visitor plugin
        git clean -fdq visitor plugin
        [ $status -eq 0 ] || exit $status
    done
    echo "=== all passed ==="
else
    run_once
fi
