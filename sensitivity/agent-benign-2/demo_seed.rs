//! Stress test for "the transform is total and deterministic".
//!
//! Every (source, options) pair is compiled once, alone, first; that result is
//! the reference. Afterwards the same pairs are compiled many times
//!   * sequentially, with a fresh `Globals` per file and with one shared `Globals`,
//!   * on several threads of this process at once (half of the threads share one
//!     `Globals`, the other half use one `Globals` per file),
//!   * right after transforms that were aborted by a (caught) panic: a `Comments`
//!     implementation that blows up on its n-th call, and a run without `HANDLER`,
//! and every result has to be byte-identical to the reference.
//!
//! Compared per run: the printed module before and after `hygiene` + `fixer`, the
//! list of diagnostics, and (only with a fresh `Globals`, where mark numbers are a
//! function of the input) the `Debug` dump of the transformed AST.

use std::{
    cell::Cell,
    panic::{self, AssertUnwindSafe},
    rc::Rc,
    sync::{
        atomic::{AtomicUsize, Ordering},
        Arc, Barrier, Mutex,
    },
    thread,
};
use swc_core::{
    common::{
        comments::{Comment, Comments, SingleThreadedComments},
        errors::{DiagnosticBuilder, Emitter, Handler, HANDLER},
        sync::Lrc,
        BytePos, FileName, Globals, Mark, SourceMap, GLOBALS,
    },
    ecma::{
        ast::Program,
        parser::{Parser, StringInput, Syntax, TsSyntax},
        transforms::{
            base::{fixer::fixer, hygiene::hygiene, resolver},
            testing::Tester,
        },
        visit::visit_mut_pass,
    },
};
use swc_vue_jsx_visitor::{Options, Regex, VueJsxTransformVisitor};

const INJECTED: &str = "demo_seed injected fault";

// ---------------------------------------------------------------------------
// workload

fn sources() -> Vec<(&'static str, String)> {
    let directives = r#"
import { ref } from 'vue'
const Comp = { A: () => null }
export const a = () => (
  <div class="x" style={s} onClick={h} onMouseenter={h2} v-show={visible} v-custom:arg_mod1_mod2={[val, ['m']]}>
    hello   world
        second	line
    {msg}
    <input v-model={[model, ['trim']]} type="checkbox" />
    <input v-model={model2} type={t} ref="i" />
    <input v-model={[model3, 'arg', ['lazy', 'number']]} type="radio" />
    <select v-model={sel} class={cls}></select>
    <textarea v-model_lazy={txt} />
    <Foo v-model={[foo, 'bar', ['mod']]} v-models={[[x], [y, 'yy'], [z, dyn, ['m']]]} {...rest} on={{ click: h }} nativeOn={{ k: 1 }} />
    <Foo {...a} class="c1" {...{ b: 1 }} class="c2" onClick={f1} onClick={f2} style="s" />
    <Comp.A v-model={[q, dynArg]}>{slot}</Comp.A>
    <my-element foo={bar} v-pre-ish_a_b></my-element>
    <svg:rect xlink:href="x" />
    <>
      <span v-html={html} v-text="text" vFocus={1} />
      <Unknown key="k">{[1, , 2]}{[]}</Unknown>
    </>
  </div>
)
"#
    .to_string();

    let slots = r#"
import { Fragment, KeepAlive } from 'vue'
let A
A = <A>{A}</A>
const b = <B v-slots={{ foo: () => 1 }}>{child}</B>
const b2 = <B v-slots={sl}></B>
const c = <C>{() => 1}</C>
const d = <D>{{ default: () => 2 }}</D>
const e = <E>{call()}</E>
const f = () => <F><G>{x}</G>text<H>{call2()}</H><H>{call3()}</H></F>
function g() { let y; y = <Y>{y}</Y>; return <H>{foo()}</H> }
const k = <KeepAlive><I/></KeepAlive>
const fr = <Fragment><J/>{...xs}</Fragment>
const m = <M a={<N>{inner()}</N>} b={<>{b}</>}>{<O>{o}</O>}</M>
"#
    .to_string();

    let types = r#"
import { defineComponent } from 'vue'
interface A extends B { a: string; self?: A }
interface B extends A { b?: number | null; cb(): void; get g(): boolean }
interface A { merged: () => void }
type T0 = T1 & T1
type T1 = { x: 'a' | 'b'; y?: Array<string> } & Partial<U>
type U = U | { u: Date }
type Keys = keyof A
type Loop = Loop2['k']
type Loop2 = { k: Loop }
const C1 = defineComponent((props: A) => () => <div>{props.a}</div>)
const C2 = defineComponent((props: T0 = defaults) => { return () => <span v-model="oops">{props.x}</span> })
const C3 = defineComponent(function (props: { m: Missing; n: T0['x']; o: Loop; [k: string]: any } = { m: 1, get n() { return 'a' }, o() {} }, { emit }: SetupContext<{ change: [v: number]; 'upd:x'(): void }>) { return () => null }, { inheritAttrs: false })
const C4 = defineComponent((props: Pick<A, 'a'> & Omit<B, Keys>) => () => <></>, opts)
const host = <Host render={defineComponent((props: T1 = dflt) => () => <i v-model={props.x} />)}>{defineComponent((props: A) => () => <b/>)}</Host>
const C5 = defineComponent((props: Readonly<{ r: Set<string>; s: Map<string, number>; t: 1 | true | 'x' | null }> = { ...spread }) => () => <C1 a="1" />)
"#
    .to_string();

    let mut malformed = String::from(
        r#"/** @jsx h */
const bad = <div v-models="x" v-html v-text={<b/>} v-model="s" v-slots={1}>
  <p v-models={notArray} v-foo />
  <q v-model={[]} v-bar={[, ['a', , 'b']]} v-html={[]} v-text={[]} />
  <r v-show={<i/>} v-html=<u/> v-baz=<></> />
</div>
const deep = "#,
    );
    let depth = 60;
    for i in 0..depth {
        malformed.push_str(&format!("<L{} d={{{i}}} v-d{}={{x}}>", i % 3, i % 2));
    }
    malformed.push_str("{leaf}");
    for i in (0..depth).rev() {
        malformed.push_str(&format!("</L{}>", i % 3));
    }
    malformed.push('\n');

    vec![
        ("directives", directives),
        ("slots", slots),
        ("types", types),
        ("malformed", malformed),
    ]
}

fn option_sets() -> Vec<(&'static str, Options)> {
    vec![
        ("default", Options::default()),
        (
            "optimize+types+on+custom",
            Options {
                optimize: true,
                resolve_type: true,
                transform_on: true,
                custom_element_patterns: vec![Regex::new("^my-").unwrap(), Regex::new("^L1$").unwrap()],
                ..Default::default()
            },
        ),
        (
            "no-merge,no-object-slots,pragma",
            Options {
                optimize: true,
                merge_props: false,
                enable_object_slots: false,
                pragma: Some("h2".into()),
                ..Default::default()
            },
        ),
        (
            "types-only",
            Options {
                resolve_type: true,
                ..Default::default()
            },
        ),
    ]
}

// ---------------------------------------------------------------------------
// one compilation

#[derive(Clone, PartialEq, Eq, Debug)]
struct Outcome {
    raw: String,
    code: String,
    diagnostics: Vec<String>,
    ast: String,
}

struct Collect(Arc<Mutex<Vec<String>>>);

impl Emitter for Collect {
    fn emit(&mut self, db: &DiagnosticBuilder<'_>) {
        let span = db.span.primary_span();
        self.0.lock().unwrap().push(format!(
            "{:?}: {} @ {:?}",
            db.level,
            db.message(),
            span.map(|s| (s.lo.0, s.hi.0))
        ));
    }
}

/// `Comments` that panics on the n-th lookup / pure comment once armed.
struct FaultyComments {
    inner: SingleThreadedComments,
    fuse: Cell<i64>,
}

impl FaultyComments {
    fn tick(&self) {
        let left = self.fuse.get();
        if left > 0 {
            self.fuse.set(left - 1);
            if left == 1 {
                panic!("{INJECTED}");
            }
        }
    }
}

impl Comments for FaultyComments {
    fn add_leading(&self, pos: BytePos, cmt: Comment) {
        self.inner.add_leading(pos, cmt)
    }
    fn add_leading_comments(&self, pos: BytePos, comments: Vec<Comment>) {
        self.inner.add_leading_comments(pos, comments)
    }
    fn has_leading(&self, pos: BytePos) -> bool {
        self.inner.has_leading(pos)
    }
    fn move_leading(&self, from: BytePos, to: BytePos) {
        self.inner.move_leading(from, to)
    }
    fn take_leading(&self, pos: BytePos) -> Option<Vec<Comment>> {
        self.tick();
        self.inner.take_leading(pos)
    }
    fn get_leading(&self, pos: BytePos) -> Option<Vec<Comment>> {
        self.tick();
        self.inner.get_leading(pos)
    }
    fn add_trailing(&self, pos: BytePos, cmt: Comment) {
        self.inner.add_trailing(pos, cmt)
    }
    fn add_trailing_comments(&self, pos: BytePos, comments: Vec<Comment>) {
        self.inner.add_trailing_comments(pos, comments)
    }
    fn has_trailing(&self, pos: BytePos) -> bool {
        self.inner.has_trailing(pos)
    }
    fn move_trailing(&self, from: BytePos, to: BytePos) {
        self.inner.move_trailing(from, to)
    }
    fn take_trailing(&self, pos: BytePos) -> Option<Vec<Comment>> {
        self.inner.take_trailing(pos)
    }
    fn get_trailing(&self, pos: BytePos) -> Option<Vec<Comment>> {
        self.inner.get_trailing(pos)
    }
    fn add_pure_comment(&self, pos: BytePos) {
        self.tick();
        self.inner.add_pure_comment(pos)
    }
}

#[derive(Clone, Copy)]
enum Fault {
    None,
    /// The comments panic on their n-th use by the visitor.
    Comments(i64),
    /// The visitor runs without `HANDLER`; its first diagnostic panics.
    NoHandler,
}

/// Must be called inside `GLOBALS.set`.
fn compile_in_globals(src: &str, options: &Options, fault: Fault) -> Outcome {
    let cm: Lrc<SourceMap> = Default::default();
    let fm = cm.new_source_file(FileName::Custom("input.tsx".into()).into(), src.to_string());
    let diagnostics = Arc::new(Mutex::new(vec![]));
    let handler = Handler::with_emitter(true, false, Box::new(Collect(diagnostics.clone())));

    let plain = SingleThreadedComments::default();
    let mut parser = Parser::new(
        Syntax::Typescript(TsSyntax {
            tsx: true,
            ..Default::default()
        }),
        StringInput::from(&*fm),
        Some(&plain),
    );
    let module = parser
        .parse_module()
        .unwrap_or_else(|err| panic!("workload must be parseable: {err:?}"));
    for err in parser.take_errors() {
        err.into_diagnostic(&handler).emit();
    }

    let unresolved_mark = Mark::new();
    let top_level_mark = Mark::new();
    let program = Program::Module(module).apply(resolver(unresolved_mark, top_level_mark, true));

    let program = match fault {
        Fault::None => HANDLER.set(&handler, || {
            program.apply(visit_mut_pass(VueJsxTransformVisitor::new(
                options.clone(),
                unresolved_mark,
                Some(plain.clone()),
            )))
        }),
        Fault::Comments(n) => {
            let faulty = Rc::new(FaultyComments {
                inner: plain.clone(),
                fuse: Cell::new(n),
            });
            HANDLER.set(&handler, || {
                program.apply(visit_mut_pass(VueJsxTransformVisitor::new(
                    options.clone(),
                    unresolved_mark,
                    Some(faulty),
                )))
            })
        }
        Fault::NoHandler => program.apply(visit_mut_pass(VueJsxTransformVisitor::new(
            options.clone(),
            unresolved_mark,
            Some(plain.clone()),
        ))),
    };

    let ast = format!("{program:?}");
    let comments = Rc::new(plain);
    let mut printer = Tester {
        cm: cm.clone(),
        handler: &handler,
        comments: comments.clone(),
    };
    let raw = printer.print(&program, &comments);
    let program = program.apply((hygiene(), fixer(Some(&*comments as &dyn Comments))));
    let code = printer.print(&program, &comments);
    let diagnostics = diagnostics.lock().unwrap().clone();
    Outcome {
        raw,
        code,
        diagnostics,
        ast,
    }
}

fn compile(src: &str, options: &Options, shared: Option<&Globals>, fault: Fault) -> Outcome {
    match shared {
        Some(globals) => GLOBALS.set(globals, || compile_in_globals(src, options, fault)),
        None => GLOBALS.set(&Globals::new(), || compile_in_globals(src, options, fault)),
    }
}

// ---------------------------------------------------------------------------
// the test

struct Case {
    source_name: &'static str,
    source: String,
    options_name: &'static str,
    options: Options,
    reference: Outcome,
}

fn check(case: &Case, shared: Option<&Globals>, context: &str) {
    let got = compile(&case.source, &case.options, shared, Fault::None);
    let what = format!(
        "{context}: source `{}` x options `{}` (shared globals: {})",
        case.source_name,
        case.options_name,
        shared.is_some()
    );
    assert_eq!(got.raw, case.reference.raw, "printed module differs; {what}");
    assert_eq!(got.code, case.reference.code, "printed module after hygiene differs; {what}");
    assert_eq!(got.diagnostics, case.reference.diagnostics, "diagnostics differ; {what}");
    if shared.is_none() {
        assert!(got.ast == case.reference.ast, "AST dump differs; {what}");
    }
}

static ABORTED: AtomicUsize = AtomicUsize::new(0);

/// Runs a transform that is expected to die half-way and swallows the panic.
fn abort_one(case: &Case, shared: Option<&Globals>, fault: Fault) {
    let result = panic::catch_unwind(AssertUnwindSafe(|| {
        compile(&case.source, &case.options, shared, fault)
    }));
    match result {
        Err(_) => {
            ABORTED.fetch_add(1, Ordering::Relaxed);
        }
        // The fuse was longer than the number of comment look-ups: the run
        // simply completed, and then it has to be the reference as well.
        Ok(got) => {
            assert_eq!(got.raw, case.reference.raw);
            assert_eq!(got.diagnostics, case.reference.diagnostics);
        }
    }
}

/// Cheap deterministic permutation source (no `rand` in the dev-dependencies).
struct Lcg(u64);

impl Lcg {
    fn next(&mut self, bound: usize) -> usize {
        self.0 = self
            .0
            .wrapping_mul(6364136223846793005)
            .wrapping_add(1442695040888963407);
        ((self.0 >> 33) as usize) % bound
    }
}

fn hammer(cases: &[Case], shared: Option<&Globals>, seed: u64, rounds: usize, context: &str) {
    let mut rng = Lcg(seed);
    for round in 0..rounds {
        let case = &cases[rng.next(cases.len())];
        check(case, shared, context);

        if round % 3 == 0 {
            let victim = &cases[rng.next(cases.len())];
            let fault = if rng.next(4) == 0 {
                Fault::NoHandler
            } else {
                Fault::Comments(1 + rng.next(12) as i64)
            };
            abort_one(victim, shared, fault);
            // the very next compilation, of the same pair and of another one
            check(victim, shared, context);
            check(&cases[rng.next(cases.len())], shared, context);
        }
    }
}

fn with_big_stack<R: Send>(f: impl FnOnce() -> R + Send) -> R {
    thread::scope(|scope| {
        thread::Builder::new()
            .stack_size(64 << 20)
            .spawn_scoped(scope, f)
            .unwrap()
            .join()
            .unwrap_or_else(|payload| panic::resume_unwind(payload))
    })
}

#[test]
fn demo_seed_repeated_and_concurrent_runs_are_identical() {
    // keep the injected panics out of the test output, report everything else
    let default_hook = panic::take_hook();
    panic::set_hook(Box::new(move |info| {
        let message = info
            .payload()
            .downcast_ref::<&str>()
            .map(|s| s.to_string())
            .or_else(|| info.payload().downcast_ref::<String>().cloned())
            .unwrap_or_default();
        if message.contains(INJECTED) || message.contains("closure passed to `set`") {
            return;
        }
        default_hook(info);
    }));

    with_big_stack(|| {
        // 1. every pair alone, first
        let mut cases = vec![];
        for (source_name, source) in sources() {
            for (options_name, options) in option_sets() {
                let reference = compile(&source, &options, None, Fault::None);
                assert!(!reference.raw.contains("</"), "JSX left in the output of {source_name}:\n{}", reference.raw);
                if std::env::var_os("DEMO_SEED_DUMP").is_some() {
                    println!(
                        "===== {source_name} x {options_name}\n{}\n----- diagnostics\n{:#?}",
                        reference.code, reference.diagnostics
                    );
                }
                cases.push(Case {
                    source_name,
                    source: source.clone(),
                    options_name,
                    options,
                    reference,
                });
            }
        }
        assert!(
            cases.iter().any(|case| !case.reference.diagnostics.is_empty()),
            "the workload is supposed to produce diagnostics"
        );
        assert!(cases.iter().any(|case| case.reference.raw.contains("#__PURE__")));

        // 2. sequentially: fresh globals per file, then one shared globals
        for case in &cases {
            check(case, None, "sequential, second run");
        }
        hammer(&cases, None, 1, 60, "sequential");
        let shared = Globals::new();
        hammer(&cases, Some(&shared), 2, 60, "sequential");

        // 3. several threads of this process at once
        let threads = 8;
        let barrier = Barrier::new(threads);
        let shared = Globals::new();
        thread::scope(|scope| {
            let handles: Vec<_> = (0..threads)
                .map(|index| {
                    let (cases, barrier, shared) = (&cases, &barrier, &shared);
                    thread::Builder::new()
                        .stack_size(64 << 20)
                        .spawn_scoped(scope, move || {
                            barrier.wait();
                            let globals = (index % 2 == 0).then_some(shared);
                            hammer(cases, globals, 100 + index as u64, 80, &format!("thread {index}"));
                        })
                        .unwrap()
                })
                .collect();
            for handle in handles {
                if let Err(payload) = handle.join() {
                    panic::resume_unwind(payload);
                }
            }
        });

        // 4. and once more alone
        for case in &cases {
            check(case, None, "sequential, after the threads");
            check(case, Some(&shared), "sequential, after the threads");
        }
    });

    assert!(
        ABORTED.load(Ordering::Relaxed) > 20,
        "fault injection is supposed to abort transforms half-way (aborted: {})",
        ABORTED.load(Ordering::Relaxed)
    );
}
