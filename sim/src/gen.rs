//! Seeded workload generator for the `gen` stratum (DESIGN.md §3.5, "W3").
//!
//! The fixed workload decides T only on the shapes somebody thought of. Here every run of the
//! stratum draws a few *fresh* modules (and option sets) from the run's PRNG - the "generated
//! operations" of the simulation - computes their solo references on the spot, and pushes them
//! through the same simulated host as everything else. A generated module is a pure function of
//! (VERIF_SEED, run index, slot); its text is embedded in the replay file.
//!
//! The grammar is biased towards the places where the pass assumes a shape: attribute values of
//! every kind on every directive spelling, odd tag and attribute names, children of every kind,
//! JSX in every syntactic position, user bindings that collide with generated names, pragma
//! comments, and - for TSX - `defineComponent` calls of every form over a small universe of type
//! declarations that refer to each other (cycles included).
//!
//! Every line of a generated module is a complete statement / declaration, so that the
//! text can be minimised by dropping lines.

use crate::rng::Rng;

pub struct GenModule {
    pub src: String,
    pub ts: bool,
    pub options: String,
    pub comments: bool,
}

fn pick<'a>(r: &mut Rng, xs: &[&'a str]) -> &'a str {
    xs[r.below(xs.len())]
}

const IDENTS: &[&str] = &["x", "y", "foo", "bar", "list", "cond", "state", "props", "_slot", "_slot2", "_isSlot", "_createVNode", "_Fragment", "h", "$event", "a1", "ünï", "日本"];
const COMPONENTS: &[&str] = &["Comp", "A", "B", "Foo", "KeepAlive", "Teleport", "Suspense", "Transition", "TransitionGroup", "Fragment", "ElButton", "X", "_C", "$C", "Ünï", "A.b", "A.b.c", "this.C", "ns.Comp", "Comp2"];
const NATIVE: &[&str] = &[
    "div", "span", "p", "a", "input", "select", "textarea", "button", "svg", "circle", "path", "foreignObject", "feGaussianBlur", "linearGradient", "blockquote", "figcaption", "template", "slot", "h1", "ul", "li", "img", "br", "animateTransform",
    "feComponentTransfer", "table",
];
const CUSTOM: &[&str] = &["x-foo", "x-", "my-element", "foo", "foo-bar", "unknown-x", "el-button", "font-face", "x-a-b", "fooBar", "svg:rect", "a:b", "xlink:x", "_x", "$x", "é-x"];
const ATTR_NAMES: &[&str] = &[
    "a", "b", "id", "class", "style", "key", "ref", "on", "nativeOn", "onClick", "onclick", "onUpdate:modelValue", "onMouseenter", "on-click", "modelValue", "innerHTML", "textContent", "type", "data-x", "aria-label", "xlink:href", "xml:lang", "a:b", "value",
    "checked", "multiple", "is", "slot", "name", "é", "onÉ", "o", "on1", "class-name", "v", "model",
];
const DIRECTIVES: &[&str] = &[
    "v-show", "v-html", "v-text", "v-model", "v-models", "v-slots", "v-custom", "v-foo-bar", "vShow", "vHtml", "vText", "vModel", "vModels", "vSlots", "vCustom", "v-model:arg", "v-model_m", "v-model:arg_m1_m2", "v-model:a-b", "v-model:é", "vModel:arg", "v-custom:arg",
    "v-custom_m1_m2", "v-custom:arg_m", "v-show:x_y", "v-html_m", "v-text:arg", "v-slots:arg", "v-models:arg", "v-", "v", "v-_", "v-a_", "v-a__b", "v-model_", "v-on", "v-bind", "v-if", "v-Model", "v-MODEL", "v-model-x", "v--", "vA", "v1", "v-1", "v-é",
];

struct G<'a> {
    r: &'a mut Rng,
    ts: bool,
    /// names of the type declarations of this module
    types: Vec<String>,
    budget: i32,
}

impl G<'_> {
    fn ident(&mut self) -> String {
        pick(self.r, IDENTS).to_string()
    }

    fn expr(&mut self, depth: u32) -> String {
        self.budget -= 1;
        let n = if depth == 0 || self.budget <= 0 { 12 } else { 22 };
        match self.r.below(n) {
            0 | 1 | 2 => self.ident(),
            3 => format!("{}.{}", self.ident(), pick(self.r, &["a", "b", "value", "length"])),
            4 => format!("{}()", pick(self.r, &["f", "g", "foo", "x.y", "useX"])),
            5 => pick(self.r, &["0", "1", "-1", "1.5", "0n", "NaN"]).to_string(),
            6 => pick(self.r, &["\"s\"", "''", "\"a b\"", "'é'", "\"\\n\"", "`t`", "`a${b}c`", "'😀x'", "\"ß\"", "'-é'", "'a-é'", "\"\\u00e9\""]).to_string(),
            7 => pick(self.r, &["null", "undefined", "true", "false", "this", "void 0"]).to_string(),
            8 => pick(self.r, &["[]", "[,]", "[1, 2]", "[...xs]", "[x, , y]", "[[x]]"]).to_string(),
            9 => pick(
                self.r,
                &[
                    "{}", "{ a: 1 }", "{ a, b }", "{ ...o }", "{ [k]: 1 }", "{ default: () => 1 }", "{ 'a-b': 1, 2: 3 }", "{ get g() { return 1 } }", "{ m() {} }", "{ 'é': 1, été: 2 }", "{ '': 1 }", "{ click: f, 'événement': g, '': h }", "{ 日本: x, 'ß': y, \"😀\": z }",
                    "{ click: f, mouseenter: g }", "{ 'update:modelValue': f, [ev]: g, ...more }", "{ a: 1, a: 2, 'a': 3 }", "{ __proto__: null, constructor: 1 }", "{ 1: a, 1.5: b, 0x10: c, 1n: d }",
                ],
            )
            .to_string(),
            10 => pick(self.r, &["() => 1", "() => {}", "function () {}", "async () => x", "(a, b) => a + b", "function* () {}"]).to_string(),
            11 => pick(self.r, &["/re/g", "new Foo()", "a ?? b", "a?.b", "typeof a", "(a, b)", "x = 1", "x++", "!x", "await_", "yield_"]).to_string(),
            12 | 13 | 14 => self.jsx(depth - 1),
            15 => format!("{} ? {} : {}", self.ident(), self.expr(depth - 1), self.expr(depth - 1)),
            16 => format!("{} && {}", self.ident(), self.jsx(depth - 1)),
            17 => format!("list.map(({}) => {})", pick(self.r, &["i", "x", "item", "_slot"]), self.jsx(depth - 1)),
            18 => format!("() => {}", self.jsx(depth - 1)),
            19 => format!("{{ default: () => {}, {}: ({}) => ({}) }}", self.jsx(depth - 1), pick(self.r, &["foo", "'a-b'", "[k]", "$stable", "_"]), pick(self.r, &["", "p", "{ a }"]), self.expr(depth - 1)),
            20 => format!("[{}, {}]", self.expr(depth - 1), self.expr(depth - 1)),
            _ => format!("({})", self.expr(depth - 1)),
        }
    }

    fn dir_value(&mut self, depth: u32) -> String {
        match self.r.below(30) {
            0 | 1 => String::new(),
            2 => "=\"x\"".into(),
            3 => "=\"\"".into(),
            4 | 5 | 6 => format!("={{{}}}", self.expr(depth)),
            7 => format!("={}", self.jsx(depth.saturating_sub(1))),
            8 => "=<></>".into(),
            9 => "=<>a{b}</>".into(),
            10 => "={[]}".into(),
            11 => "={[,]}".into(),
            12 => "={[...x]}".into(),
            13 => format!("={{[{}]}}", self.expr(depth)),
            14 => format!("={{[{}, \"arg\"]}}", self.expr(depth)),
            15 => format!("={{[{}, [\"m1\", \"m2\"]]}}", self.expr(depth)),
            16 => format!("={{[{}, \"arg\", [\"m\"]]}}", self.expr(depth)),
            17 => format!("={{[{}, arg]}}", self.expr(depth)),
            18 => format!("={{[{}, arg, [\"m\"]]}}", self.expr(depth)),
            19 => "={[x, , [\"m\"]]}".into(),
            20 => "={[, \"a\", [\"m\"]]}".into(),
            21 => "={[x, [, \"m\", ...r, 1, y, \"\"]]}".into(),
            22 => "={[x, ...rest]}".into(),
            23 => format!("={{[[{}, \"a\", [\"m\"]], [y], [z, \"b\"], [w, dyn, [\"n\"]]]}}", self.expr(depth)),
            24 => "={[[], [,], ...y, 1, [[w]], [x, 1, 2], [x, [\"m\"], \"a\"]]}".into(),
            25 => pick(self.r, &["={[x, \"\", []]}", "={[x, \"é\", [\"é\", \"\"]]}", "={[x, \"a-é\", [\"日本\"]]}", "={[x, \"-é\"]}", "={[x, [\"😀\"]]}", "={[x, \"ß-\", [\"-\"]]}"]).into(),
            26 => "={[x, 'a-b', ['m-n', 'é']]}".into(),
            27 => "={[x, `t`, [`m`]]}".into(),
            28 => pick(
                self.r,
                &[
                    "={[x, null, undefined]}", "={[[x], [y]]}", "={[[x, \"foo\"], [y, \"foo\"], [z, \"bar\"], [w]]}", "={[[x, \"a\"], [y, \"b\"], [z, \"a\"], [u, \"c\"], [v, \"b\"]]}", "={[[x, dyn], [y, dyn], [z, \"s\"], [w, \"s\"], [q]]}",
                    "={[[x, \"a\", [\"m\"]], [y, \"a\", [\"n\"]], [z, \"b\"], [z2, \"c\"]]}", "={[x, \"arg\", [\"m\", \"n\", \"m\", \"o\", \"n\"]]}",
                ],
            )
            .into(),
            _ => format!("={{{{ a: {} }}}}", self.expr(depth)),
        }
    }

    fn attr(&mut self, depth: u32, tag: &str) -> String {
        match self.r.below(20) {
            0..=7 => {
                let n = pick(self.r, ATTR_NAMES);
                match self.r.below(12) {
                    0 => n.to_string(),
                    1 | 2 => format!("{n}=\"{}\"", pick(self.r, &["v", "", " ", "a b", "&amp;&lt;&#65;&nbsp;", "  two\n   lines  ", "é日本", "checkbox", "radio", "text", "#a", "\\n", "'"])),
                    3 => format!("{n}='{}'", pick(self.r, &["v", "\"", "a\tb"])),
                    4..=8 => format!("{n}={{{}}}", self.expr(depth)),
                    9 => format!("{n}={}", self.jsx(depth.saturating_sub(1))),
                    10 => format!("{n}=<>{}</>", pick(self.r, &["", "t", "{x}"])),
                    _ => format!("{n}={{{} /* c */}}", self.ident()),
                }
            }
            8 | 9 => format!("{{...{}}}", pick(self.r, &["rest", "props", "{}", "{ a: 1, b }", "{ a: x, b: y, c: z, d: w }", "f()", "{ ...o, on: h }", "{ class: c, style: s, onClick: f }", "{ 'a-b': 1, [k]: 2, m() {} }", "_slot", "a.b"])),
            11 => {
                let n = pick(self.r, &["on", "nativeOn", "on", "onUpdate:modelValue", "style", "class"]);
                format!("{n}={{{}}}", pick(self.r, &["{ click: f }", "{ click: f, 'événement': g }", "{ '': h }", "{ été: h, ...more }", "{ [ev]: h }", "listeners", "{ 'a-b': f, 'a:b': g, A: h, _: i, 1: j }", "{}", "[a, b]", "{ 日本: f }", "{ click() {}, get x() { return f } }"]))
            }
            10 => {
                // the attributes v-model on <input> looks at
                format!("type{}", pick(self.r, &["=\"checkbox\"", "=\"radio\"", "=\"text\"", "={t}", "", "=<b/>", "=\"checkbox\" type=\"radio\"", "={\"checkbox\"}", "={`radio`}", "=\"\""]))
            }
            _ => {
                let d = pick(self.r, DIRECTIVES);
                let _ = tag;
                format!("{d}{}", self.dir_value(depth))
            }
        }
    }

    fn text(&mut self) -> String {
        pick(
            self.r,
            &[
                "text", " lead", "trail ", "  both  ", "a\n   b\n  c", "\n  \n", "\n", " ", "&amp;&nbsp;&#x41;&lt;", "é 日本 🙂", "a  b", "\ttab\t", "x\n", "\n y", "it's \"q\"", "a\u{a0}b", "\r\n  z", "&notanentity;", "&#0;", "", "line&#13;", "&#xD;", "&#10;x", "tab&#9;", "a&#x2028;b",
            ],
        )
        .to_string()
    }

    fn child(&mut self, depth: u32) -> String {
        if depth == 0 || self.budget <= 0 {
            return match self.r.below(4) {
                0 => self.text(),
                1 => format!("{{{}}}", self.ident()),
                2 => "{}".into(),
                _ => "<br/>".into(),
            };
        }
        match self.r.below(24) {
            0..=3 => self.text(),
            4 => "{}".into(),
            5 => "{/* c */}".into(),
            6..=8 => format!("{{{}}}", self.ident()),
            9 => format!("{{...{}}}", self.ident()),
            10..=12 => format!("{{{}}}", self.expr(depth)),
            13..=17 => self.jsx(depth - 1),
            18 => format!("<>{}</>", self.children(depth - 1)),
            19 => format!("{{{}}}", self.jsx(depth - 1)),
            20 => format!("{{{}()}}", pick(self.r, &["f", "g.h", "slots.default", "_slot"])),
            21 => "{\n  // line comment\n}".into(),
            22 => format!("{{{} /* trailing */}}", self.ident()),
            _ => format!("{{{} ? {} : null}}", self.ident(), self.jsx(depth - 1)),
        }
    }

    fn children(&mut self, depth: u32) -> String {
        let n = [0, 1, 1, 1, 2, 2, 3, 5][self.r.below(8)];
        let mut s = String::new();
        for _ in 0..n {
            s.push_str(&self.child(depth));
        }
        s
    }

    fn tag(&mut self) -> String {
        match self.r.below(10) {
            0..=3 => pick(self.r, NATIVE).to_string(),
            4..=7 => pick(self.r, COMPONENTS).to_string(),
            _ => pick(self.r, CUSTOM).to_string(),
        }
    }

    fn jsx(&mut self, depth: u32) -> String {
        self.budget -= 2;
        if self.r.chance(8) {
            return format!("<>{}</>", self.children(depth));
        }
        let tag = self.tag();
        let na = [0, 0, 1, 1, 2, 2, 3, 4, 6][self.r.below(9)];
        let mut attrs = String::new();
        for _ in 0..na {
            attrs.push(if self.r.chance(5) { '\n' } else { ' ' });
            let a = self.attr(depth.min(2), &tag);
            attrs.push_str(&a);
        }
        if self.r.chance(25) {
            format!("<{tag}{attrs} />")
        } else {
            format!("<{tag}{attrs}>{}</{tag}>", self.children(depth))
        }
    }

    // ---------------------------------------------------------------- types

    fn type_ref(&mut self) -> String {
        if self.r.chance(8) {
            // declared (if at all) only in nested scopes: unbound where it is used at module level
            return pick(self.r, &["L0", "L1"]).to_string();
        }
        if !self.types.is_empty() && self.r.chance(85) {
            self.types[self.r.below(self.types.len())].clone()
        } else {
            pick(self.r, &["Missing", "Imported", "NS.Inner", "NS.Missing", "Ext.Deep.Er", "Gen<string>", "globalThis.X"]).to_string()
        }
    }

    fn prop_key(&mut self) -> String {
        pick(self.r, &["a", "b", "c", "a", "b", "foo", "bar", "'quoted'", "'a-b'", "1", "[computed]", "['lit']", "[`tpl`]", "[1]", "onClick", "modelValue", "é", "default", "constructor", "__proto__"]).to_string()
    }

    fn type_lit(&mut self, depth: u32) -> String {
        let n = self.r.below(5);
        let mut m = vec![];
        for _ in 0..n {
            let k = self.prop_key();
            m.push(match self.r.below(14) {
                0..=4 => format!("{k}: {}", self.ty(depth)),
                5 | 6 => format!("{k}?: {}", self.ty(depth)),
                7 => format!("readonly {k}: {}", self.ty(depth)),
                8 => format!("{k}(): {}", self.ty(depth)),
                9 => format!("{k}?(x: number): void"),
                10 => format!("(e: {}): void", self.ty(depth)),
                11 => "new (): object".to_string(),
                12 => format!("[k: string]: {}", self.ty(depth)),
                _ => format!("get {k}(): {}", self.ty(depth)),
            });
        }
        format!("{{ {} }}", m.join("; "))
    }

    fn ty(&mut self, depth: u32) -> String {
        self.budget -= 1;
        let n = if depth == 0 || self.budget <= 0 { 8 } else { 30 };
        let d = depth.saturating_sub(1);
        match self.r.below(n) {
            0 => pick(self.r, &["string", "number", "boolean", "object", "null", "undefined", "any", "unknown", "never", "void", "bigint", "symbol"]).to_string(),
            1 => pick(self.r, &["'lit'", "\"a\" | \"b\"", "1", "1n", "true", "false", "`tpl`", "`a${string}`", "-1"]).to_string(),
            2 | 3 | 4 => self.type_ref(),
            5 => pick(self.r, &["Function", "Object", "Date", "Error", "RegExp", "String", "Number", "Boolean", "Symbol", "Array<any>", "Set<string>", "Map<string, number>", "WeakSet<object>", "WeakMap<object, any>", "Promise<void>", "ReadonlyArray<number>"]).to_string(),
            6 => pick(self.r, &["(() => void)", "((a: string) => number)", "(new () => object)", "((...args: any[]) => any)", "typeof x", "typeof import('y')", "unique symbol", "this", "keyof Window"]).to_string(),
            7 => pick(self.r, &["string[]", "[string, number]", "[a: string, b?: number]", "[...string[]]", "[]", "readonly string[]", "string[][]"]).to_string(),
            8 | 9 => format!("{} | {}", self.ty(d), self.ty(d)),
            10 | 11 => format!("{} & {}", self.ty(d), self.ty(d)),
            12 | 13 => self.type_lit(d),
            14 => format!("({})", self.ty(d)),
            15 => format!("{}[]", self.ty(d)),
            16 => format!("{}<{}>", pick(self.r, &["Partial", "Required", "Readonly", "NonNullable", "Array", "Promise", "Set", "InstanceType", "ReturnType", "Parameters", "Awaited", "Uppercase", "Capitalize"]), self.ty(d)),
            17 => format!("{}<{}, {}>", pick(self.r, &["Pick", "Omit", "Record", "Exclude", "Extract", "Map"]), self.ty(d), self.ty(d)),
            18 => format!("Pick<{}, {}>", self.type_ref(), pick(self.r, &["'a'", "'a' | 'b'", "'foo' | 'missing'", "K", "keyof T0", "string", "never"])),
            19 => format!("Omit<{}, {}>", self.type_ref(), pick(self.r, &["'a'", "'a' | 'b'", "K", "T1", "`a`"])),
            20 | 21 => format!("{}[{}]", self.type_ref(), pick(self.r, &["'a'", "'b'", "'a' | 'b'", "number", "0", "string", "K", "keyof T0", "T0", "'missing'", "`a`", "'a'['length']"])),
            22 => format!("({})['a']", self.ty(d)),
            23 => format!("{} extends {} ? {} : {}", self.ty(d), self.ty(d), self.ty(d), self.ty(d)),
            24 => format!("{{ [K in keyof {}]: {}[K] }}", self.type_ref(), self.type_ref()),
            25 => format!("{{ [K in {}]?: string }}", self.ty(d)),
            26 => format!("keyof {}", self.ty(d)),
            27 => format!("[{}, {}]", self.ty(d), self.ty(d)),
            28 => format!("(({}) => {})", pick(self.r, &["", "e: 'a'", "e: 'a' | 'b', v: number", "...a: T0[]"]), self.ty(d)),
            _ => format!("SetupContext<{}>", self.ty(d)),
        }
    }

    fn emits_ty(&mut self, depth: u32) -> String {
        match self.r.below(12) {
            0 => pick(self.r, &["{ (e: 'change'): void; (e: 'update', v: number): void }", "{ (e: 'change', v: string): void; (e: 'input'): void; (e: 'change', v: number): void; (e: 'blur'): void; (e: 'input', x: 1): void; (e: 'focus'): void }", "{ change: []; input: [x: number]; change: [y: string]; blur: []; focus: [] }", "(e: 'a' | 'b' | 'a' | 'c' | 'b' | 'd') => void"]).into(),
            1 => "(e: 'a' | 'b') => void".into(),
            2 => "{ change: [v: number]; update: []; 'a-b': [x: string, y?: number] }".into(),
            3 | 4 | 5 => self.type_ref(),
            6 => format!("{} | {}", self.type_ref(), self.type_ref()),
            7 => format!("{} & {}", self.type_ref(), self.type_ref()),
            8 => format!("{{ (e: {}): void }}", self.ty(depth)),
            9 => format!("(e: {}, ...rest: any[]) => void", self.ty(depth)),
            10 => "{ (e: string): void; (e: 1): void; (): void; (e?: 'o'): void; ({ a }: T0): void }".into(),
            _ => self.ty(depth),
        }
    }

    fn type_decls(&mut self, out: &mut Vec<String>) {
        let n = self.r.below(7);
        for i in 0..n {
            let name = if self.r.chance(12) && !self.types.is_empty() { self.types[self.r.below(self.types.len())].clone() } else { format!("T{i}") };
            self.types.push(name);
        }
        if self.r.chance(30) {
            self.types.push("K".into());
        }
        let names = self.types.clone();
        for name in names {
            let ex = if self.r.chance(25) { "export " } else { "" };
            let line = match self.r.below(10) {
                0..=3 => format!("{ex}type {name} = {};", self.ty(3)),
                4..=6 => {
                    let ext = match self.r.below(5) {
                        0 => format!(" extends {}", self.type_ref()),
                        1 => format!(" extends {}, {}", self.type_ref(), self.type_ref()),
                        2 => format!(" extends {}", pick(self.r, &["Partial<T0>", "Pick<T1, 'a'>", "Omit<T0, 'a' | 'b'>", "Array<T0>", "Readonly<T2>"])),
                        _ => String::new(),
                    };
                    // (an interface may only extend an identifier / qualified name with type arguments; others
                    // fail to parse and the module is then dropped - rare enough)
                    format!("{ex}interface {name}{ext} {}", self.type_lit(2))
                }
                7 => format!("{ex}class {name} {{ a = 1; b?: string; static s = 2; m() {{}} }}"),
                8 => format!("{ex}enum {name} {{ A, B = 'b', C = 1 << 2 }}"),
                _ => format!("{ex}type {name}<P = {}> = {};", self.ty(1), self.ty(2)),
            };
            out.push(line);
        }
        if self.r.chance(20) {
            out.push(format!("namespace NS {{ export interface Inner {} export type Alias = {}; }}", self.type_lit(2), self.ty(2)));
        }
        // the same names declared in several disjoint nested scopes (and nowhere at module level)
        let nested = [0, 0, 0, 1, 2, 3, 5][self.r.below(7)];
        for k in 0..nested {
            let name = pick(self.r, &["L0", "L1"]);
            let decl = if self.r.chance(50) { format!("interface {name} {}", self.type_lit(1)) } else { format!("type {name} = {};", self.ty(1)) };
            out.push(match self.r.below(6) {
                0 => format!("declare global {{ {decl} }}"),
                1 => format!("function nest{k}() {{ {decl} }}"),
                2 => format!("{{ {decl} }}"),
                3 => format!("const nest{k} = () => {{ {decl} }};"),
                4 => format!("class Nest{k} {{ m() {{ {decl} }} }}"),
                _ => format!("if (cond) {{ {decl} }}"),
            });
        }
        if self.r.chance(15) {
            out.push(format!("declare module 'm' {{ interface T0 {} }}", self.type_lit(1)));
        }
    }

    fn defaults_obj(&mut self) -> String {
        let n = [0, 1, 2, 3, 4, 6, 8][self.r.below(7)];
        let mut m = vec![];
        for _ in 0..n {
            let k = pick(self.r, &["a", "b", "a", "foo", "bar", "'quoted'", "['lit']", "[dyn]", "['fo' + 'o']", "1", "'1'", "é", "zz", "yy", "xx", "ww"]);
            m.push(match self.r.below(9) {
                0..=2 => format!("{k}: {}", self.expr(1)),
                3 => format!("{k}() {{ return 1 }}"),
                4 => format!("async {k}() {{}}"),
                5 => format!("get {k}() {{ return 1 }}"),
                6 => "...rest".to_string(),
                7 => pick(self.r, &["a", "b", "foo"]).to_string(),
                _ => format!("*{k}() {{}}"),
            });
        }
        format!("{{ {} }}", m.join(", "))
    }

    fn define_component(&mut self) -> String {
        let callee = pick(self.r, &["defineComponent", "defineComponent", "defineComponent", "dc", "Vue.defineComponent", "localDefine", "(0, defineComponent)"]);
        let targs = match self.r.below(8) {
            0 => format!("<{}>", self.ty(2)),
            1 => format!("<{}, {}>", self.ty(2), self.emits_ty(1)),
            _ => String::new(),
        };
        let props_ty = if self.r.chance(70) { self.ty(3) } else { self.type_lit(2) };
        let p0 = match self.r.below(12) {
            0 => String::new(),
            1 => "props".to_string(),
            2..=5 => format!("props: {props_ty}"),
            6 => format!("{{ a, b = 1, ...rest }}: {props_ty}"),
            7 => format!("props: {props_ty} = {}", self.defaults_obj()),
            8 => format!("{{ a = 1, b = 'x', c = () => 1, d: {{ e }} = {{}}, ['f']: g = 2 }}: {props_ty}"),
            9 => format!("props: {props_ty} = defaults"),
            10 => format!("...args: {props_ty}[]"),
            _ => format!("props?: {props_ty}"),
        };
        let p1 = match self.r.below(8) {
            0..=2 => String::new(),
            3 | 4 => format!(", ctx: SetupContext<{}>", self.emits_ty(2)),
            5 => format!(", {{ emit }}: SetupContext<{}>", self.emits_ty(2)),
            6 => ", ctx".to_string(),
            _ => format!(", ctx: {}", self.ty(2)),
        };
        let p0 = if p0.is_empty() && !p1.is_empty() { "_".to_string() } else { p0 };
        let body = match self.r.below(5) {
            0 => "{}".to_string(),
            1 => format!("() => {}", self.jsx(2)),
            2 => format!("{{ return () => {} }}", self.jsx(2)),
            3 => format!("{{ const {} = 1; return () => {} }}", pick(self.r, &["_slot", "x", "_createVNode"]), self.jsx(2)),
            _ => format!("{}", self.jsx(1)),
        };
        // a generic setup function (Vue 3.3): type parameters whose constraints / defaults may refer to each other
        let generics = match self.r.below(10) {
            0 => "<T extends string,>",
            1 => "<T extends U, U extends T,>",
            2 => "<T extends U, U extends V, V extends U,>",
            3 => "<T = U, U = T,>",
            4 => "<T extends T0, U extends T['a'],>",
            5 => "<T extends { a: T },>",
            _ => "",
        };
        let p0 = if !generics.is_empty() && self.r.chance(60) { p0.replacen(&props_ty, "T", 1) } else { p0 };
        let func = match self.r.below(6) {
            0 => format!("function {}({p0}{p1}) {}", generics.replace(",>", ">"), if body.starts_with('{') { body.clone() } else { format!("{{ return {body} }}") }),
            1 => format!("async {generics}({p0}{p1}) => {body}"),
            2 => format!("function named{}({p0}{p1}) {{}}", generics.replace(",>", ">")),
            _ => format!("{generics}({p0}{p1}) => {body}"),
        };
        let func = if self.r.chance(6) { pick(self.r, &["setupFn", "{ setup() {} }", "{ props: { a: String }, setup(props) {} }", "...fns"]).to_string() } else { func };
        let opts = match self.r.below(12) {
            0 => ", {}".to_string(),
            1 => ", { name: 'N' }".to_string(),
            2 => ", { props: { z: String } }".to_string(),
            3 => ", { emits: ['z'] }".to_string(),
            4 => ", { props: ['a'], emits: { z: null } }".to_string(),
            5 => ", opts".to_string(),
            6 => ", { ...opts }".to_string(),
            7 => ", { 'props': {}, ['emits']: [] }".to_string(),
            8 => ", { name: 'N', inheritAttrs: false }, extra".to_string(),
            _ => String::new(),
        };
        format!("{callee}{targs}({func}{opts})")
    }

    fn statement(&mut self, i: usize) -> String {
        let d = 1 + self.r.below(3) as u32;
        match self.r.below(if self.ts { 26 } else { 21 }) {
            0..=3 => format!("const v{i} = {};", self.jsx(d)),
            4 => format!("function f{i}(p) {{ return {} }}", self.jsx(d)),
            5 => format!("const g{i} = () => {};", self.jsx(d)),
            6 => match self.r.below(8) {
                0 => format!("const h{i} = (a = {}) => a;", self.jsx(d)),
                1 => format!("const h{i} = (a = {}) => {{ return a; }};", self.jsx(d)),
                2 => format!("const h{i} = (a = {}, b = {}) => {{ const c = {}; return [a, b, c]; }};", self.jsx(1), self.jsx(1), self.jsx(d)),
                3 => format!("const h{i} = ({{ a = {}, b: [c = {}] }}) => {{ return a; }};", self.jsx(d), self.jsx(1)),
                4 => format!("function h{i}(a = {}, {{ b = {} }} = {{}}) {{ return a; }}", self.jsx(d), self.jsx(1)),
                5 => format!("const h{i} = {{ m(a = {}) {{ return a; }}, set s(v = {}) {{}} }};", self.jsx(d), self.jsx(1)),
                6 => format!("async function* h{i}(a = {}) {{ yield {}; const r = await {}; return r; }}", self.jsx(1), self.jsx(d), self.jsx(1)),
                _ => format!("x = 0; const h{i} = (p = (x = <Comp>{{x}}</Comp>), q = {}) => {{ return () => (x = <B>{{x}}</B>); }};", self.jsx(d)),
            },
            7 => format!("class C{i} {{ field = {}; static s = {}; method() {{ return {} }} get g() {{ return {} }} }}", self.jsx(1), self.jsx(1), self.jsx(d), self.jsx(1)),
            8 => format!("for (const i of list) {{ out.push({}) }}", self.jsx(d)),
            9 => {
                let x = pick(self.r, &["x", "y", "foo", "_slot"]);
                format!("{x} = <{}>{{{x}}}</{}>;", "Comp", "Comp")
            }
            10 => {
                let x = pick(self.r, &["x", "y", "state"]);
                let y = if self.r.chance(50) { x } else { "y" };
                format!("{x} = 1; const w{i} = <A>{{{y}}}</A>;")
            }
            11 => format!("if (cond) {{ y = {} }} else {{ const z = {}; }}", self.jsx(d), self.jsx(1)),
            12 => format!("export const e{i} = {};", self.jsx(d)),
            13 => format!("const n{i} = () => {{ const inner = () => {}; return {} }};", self.jsx(d), self.jsx(1)),
            14 => format!("{};", self.jsx(d)),
            15 => format!("const o{i} = {{ render() {{ return {} }}, a: {}, [k]: () => {} }};", self.jsx(d), self.jsx(1), self.jsx(1)),
            16 => format!("const s{i} = <Comp>{{{}}}</Comp>;", pick(self.r, &["foo", "foo()", "a.b", "_slot", "x ? y : z", "[1]", "{ default: () => 1 }", "() => 1", "`t`", "null", "this", "await_", "x = 1", "f(<b/>)"])),
            17 => format!("function outer{i}() {{ const a = <A>{{f()}}</A>; function inner() {{ return <B>{{g()}}</B> }} return [a, inner, {}] }}", self.jsx(d)),
            18 => format!("switch (k) {{ case 1: {{ r = {}; break }} default: r = {} }}", self.jsx(d), self.jsx(1)),
            19 => match self.r.below(4) {
                0 => format!("function d{i}() {{ 'use strict' }} const e{i} = () => {{ 'use strict'; }}; {{ 'a'; 'b'; }}"),
                1 => format!("function d{i}() {{ 'use strict'; return {}; }}", self.jsx(d)),
                _ => format!("try {{ t = {} }} catch (e) {{ t = {} }} finally {{ u = {} }}", self.jsx(1), self.jsx(1), self.jsx(1)),
            },
            20 => match self.r.below(6) {
                0 => format!("label{i}: while (c) {{ const l = {}; break label{i} }}", self.jsx(d)),
                1 => format!("const t{i} = `a${{{}}}b`; const u{i} = tag`x${{{}}}`;", self.jsx(d), self.jsx(1)),
                2 => format!("for (let i = {}; i < n({}); i = next({})) {{ r = {}; }}", self.jsx(1), self.jsx(1), self.jsx(1), self.jsx(d)),
                3 => format!("const q{i} = ({}, {}); r ??= {}; throw_(typeof {});", self.jsx(1), self.jsx(d), self.jsx(1), self.jsx(1)),
                4 => format!("const r{i} = (() => {{ const a = {}; return (function (b = {}) {{ return {}; }})(); }})();", self.jsx(1), self.jsx(1), self.jsx(d)),
                _ => format!("class E{i} extends mix({}) {{ #p = {}; static {{ init({}); }} constructor(a = {}) {{ super(); }} }}", self.jsx(1), self.jsx(1), self.jsx(1), self.jsx(d)),
            },
            21 | 22 | 23 => format!("{}{};", pick(self.r, &["", "export default ", "const Comp2 = ", "export const Ex = ", "const c = /*#__PURE__*/ "]), self.define_component()),
            24 => format!("function scope{i}() {{ type T0 = {}; interface T1 {} return {} }}", self.ty(2), self.type_lit(2), self.define_component()),
            _ => format!("const typed{i}: {} = {} as {};", self.ty(2), self.jsx(1), self.ty(1)),
        }
    }
}

pub fn options(r: &mut Rng) -> String {
    let mut parts: Vec<String> = vec![];
    for k in ["transformOn", "optimize", "mergeProps", "enableObjectSlots", "resolveType"] {
        match r.below(3) {
            0 => parts.push(format!("\"{k}\":true")),
            1 => parts.push(format!("\"{k}\":false")),
            _ => {}
        }
    }
    match r.below(10) {
        0 => parts.push("\"customElementPatterns\":[]".into()),
        1 => parts.push("\"customElementPatterns\":[\"^x-\"]".into()),
        2 => parts.push("\"customElementPatterns\":[\"^x-\",\"^El[A-Z]\"]".into()),
        3 => parts.push("\"customElementPatterns\":[\".\"]".into()),
        4 => parts.push("\"customElementPatterns\":[\"^foo$\",\"bar\",\"^unknown-\"]".into()),
        5 => parts.push("\"customElementPatterns\":[\"(?i)^el\",\"\",\"\\\\p{L}-\"]".into()),
        6 => parts.push("\"customElementPatterns\":[\"^(?:x|my|font)-\",\"^[A-Z]$\",\"é\"]".into()),
        7 => parts.push(format!("\"customElementPatterns\":[\"{}\"]", ["/^x-/", "/^x-/i", "(?i)^x-", "^X-", " ^x-", "(^x-)", "^x-$", "^x-|^x-"][r.below(8)])),
        _ => {}
    }
    match r.below(10) {
        0 => parts.push("\"pragma\":\"h\"".into()),
        1 => parts.push("\"pragma\":\"_createVNode\"".into()),
        2 => parts.push("\"pragma\":null".into()),
        3 => parts.push("\"pragma\":\"createElement\"".into()),
        _ => {}
    }
    if r.chance(10) {
        parts.push("\"unknownKey\":{\"nested\":[1,2]}".into());
    }
    // order of keys is the host's business
    for i in (1..parts.len()).rev() {
        parts.swap(i, r.below(i + 1));
    }
    format!("{{{}}}", parts.join(","))
}

pub fn module(r: &mut Rng) -> GenModule {
    let ts = r.chance(45);
    module_like(r, ts)
}

pub fn module_like(r: &mut Rng, ts: bool) -> GenModule {
    let mut g = G { r, ts, types: vec![], budget: 150 };
    let mut lines: Vec<String> = vec![];
    // head: pragma / other annotation comments
    match g.r.below(14) {
        0 => lines.push("/* @jsx h */".into()),
        1 => lines.push("/** @jsx custom */".into()),
        2 => lines.push("// @jsx lineH".into()),
        3 => lines.push("/** @jsxImportSource vue */".into()),
        4 => lines.push("/* @jsx */".into()),
        5 => lines.push("/*\n * @jsx   spaced   \n */".into()),
        6 => lines.push("/* @jsxFrag F */ /* @jsx a.b */".into()),
        _ => {}
    }
    // a directive prologue
    match g.r.below(12) {
        0 => lines.push("'use strict';".into()),
        1 => lines.push("'use client';\n\"use strict\";".into()),
        _ => {}
    }
    // imports
    let mut modular = false;
    match g.r.below(9) {
        0 | 1 => {
            lines.push("import { defineComponent, type SetupContext, Fragment, KeepAlive } from 'vue';".replace("type SetupContext, ", if ts { "type SetupContext, " } else { "" }));
            modular = true;
        }
        2 => {
            lines.push("import { defineComponent as dc, createVNode as _createVNode, Fragment as _Fragment } from 'vue';".into());
            modular = true;
        }
        3 => {
            lines.push("import * as Vue from 'vue';".into());
            modular = true;
        }
        4 => {
            lines.push("import Vue, { defineComponent } from 'vue';".into());
            lines.push("import { defineComponent as other, Comp, A } from './local';".into());
            modular = true;
        }
        5 => {
            lines.push("import { Comp, A, B } from './components';".into());
            if ts {
                lines.push("import type { Imported } from './types';".into());
            }
            modular = true;
        }
        6 => {
            lines.push("import { defineComponent } from 'vue';".into());
            lines.push("import { mergeDefaults as _mergeDefaults, createVNode } from 'vue';".into());
            modular = true;
        }
        _ => {}
    }
    // user bindings that look like generated ones, and bindings for some of the names used
    for _ in 0..g.r.below(4) {
        lines.push(
            pick(
                g.r,
                &[
                    "const _slot = 1;", "let _createVNode = 0, _Fragment;", "function _isSlot() {}", "var _slot2, _slot3;", "const Comp = {}, A = { b: { c: {} } };", "let x, y, foo, state, list = [];", "const h = () => {};", "function localDefine(f) { return f }",
                    "const _transformOn = 1, _resolveComponent = 2;", "class Foo {}", "const defaults = { a: 1 };", "let _x, $x, _C, $C;", "var KeepAlive, Fragment;", "const _a = 1, _x2 = 2;",
                ],
            )
            .to_string(),
        );
    }
    if ts {
        g.type_decls(&mut lines);
    }
    let n = 1 + g.r.below(6);
    for i in 0..n {
        if g.r.chance(10) {
            lines.push(pick(g.r, &["/* @jsx mid */", "// @jsx midLine", "/** @jsx afterStatement */", "/* not a pragma */", "/* @jsxRuntime classic */"]).to_string());
        }
        let s = g.statement(i);
        if s.starts_with("export ") {
            modular = true;
        }
        lines.push(s);
    }
    let _ = modular;
    // at most one `export default`
    let mut seen_default = false;
    for l in lines.iter_mut() {
        if l.starts_with("export default ") {
            if seen_default {
                *l = l.replacen("export default ", "", 1);
            }
            seen_default = true;
        }
    }
    let comments = g.r.chance(75);
    let options = options(g.r);
    // line-ending convention of the file
    let eol = match g.r.below(30) {
        0 | 1 => "\r\n",
        2 => "\r",
        _ => "\n",
    };
    let src = lines.join("\n") + "\n";
    let src = if eol == "\n" { src } else { src.replace('\n', eol) };
    GenModule { src, ts, options, comments }
}
