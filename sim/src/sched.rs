//! The simulated host: worker OS threads released one at a time (the "baton"), a decision
//! source that picks every action, and the executor that turns (plan, script) into a record.
//!
//! Exactly one thread is ever runnable: either the coordinator or the worker named by
//! `holder`. Every other thread is parked on the condvar. So the OS scheduler decides
//! nothing; `decide()` decides everything, and it is a pure function of the plan, the
//! script / PRNG, and what the code under test did so far.

use crate::pipeline::{self, Env, Output};
use crate::plan::*;
use crate::rng::{fnv_str, mix, Fnv, Rng};
use serde::{Deserialize, Serialize};
use crate::seams::{self, AnyComments, BudgetExceeded, Crash, Phase, SharedComments, TaskCtx, CTX};
use std::collections::BTreeMap;
use std::sync::{Arc, Condvar, Mutex};
use swc_core::common::{errors::HANDLER, sync::Lrc, Globals, SourceMap, GLOBALS};
use swc_vue_jsx_visitor::Options;

pub const WORKER_STACK: usize = 64 << 20;
pub const SOLO_STEP_CAP: u32 = 2_000_000;
pub const SOLO_SITES_KEPT: usize = 8_000;

#[derive(Clone, Copy, PartialEq, Eq, Debug)]
enum Holder {
    Coord,
    Worker(u8),
}

#[derive(Clone, Debug, PartialEq, Eq, Serialize, Deserialize)]
pub enum Outcome {
    Returned(Output),
    /// the pass (or anything under it) panicked on its own
    Panicked(String),
    /// the step budget was exceeded (runaway recursion / loop through hooked code)
    Budget(u32),
    /// an injected fault ended the task; there is no expected result
    Crashed,
    /// the workload module did not parse (harness problem, not a property violation)
    ParseFail(String),
    /// the (forked) process running it alone died or hung: real stack overflow, abort, endless loop
    Died(String),
}

#[derive(Clone, Debug, Serialize, Deserialize)]
pub struct TaskResult {
    pub task: u16,
    pub worker: u8,
    pub generation: u32,
    pub epoch: u32,
    pub outcome: Outcome,
    pub steps: u32,
    pub fault_fired: bool,
    /// GLOBALS or HANDLER still set on the worker after the task ended (clause R)
    pub residue: bool,
    /// this task started on a worker thread whose previous task ended in a crash/panic
    pub after_crash_on_same_thread: bool,
}

struct EpochEnv {
    globals: Arc<Globals>,
    cm: Lrc<SourceMap>,
    store: SharedComments,
}

impl EpochEnv {
    fn new() -> Arc<Self> {
        Arc::new(EpochEnv { globals: Arc::new(Globals::new()), cm: Default::default(), store: Default::default() })
    }
}

struct JobData {
    task_idx: u16,
    task: PlanTask,
    /// None: the worker deserialises the configuration itself, for this file only
    opts: Option<Options>,
    env: Option<Arc<EpochEnv>>, // None = per-task Globals
    handler: Option<Arc<swc_core::common::errors::Handler>>,
    shared_store: bool,
    epoch: u32,
    budget: u32,
}

enum Job {
    Run(Box<JobData>),
    Exit,
}

struct Slot {
    busy: Option<u16>,
    parked: bool,
    generation: u32,
    mailbox: Option<Job>,
    last_task_crashed: bool,
    in_transform: bool,
    /// kernel thread id of the worker's OS thread (to read its scheduler state from /proc)
    tid: i32,
    /// the worker held the baton and was found asleep in the kernel without having yielded: it waits
    /// for something (a lock of the code under test) that a parked task holds. It is not resumable
    /// until it arrives at its next yield point by itself.
    blocked: bool,
    /// a blocked worker reached its next yield point (or the end of its task) and waits there;
    /// acknowledged (turned into `parked`) only by `settle`
    arrived: bool,
}

#[derive(Default, Clone, Debug, Serialize, Deserialize)]
pub struct Counters {
    pub events: u64,
    pub switches: u32,
    /// control moved away from a task that was still running (parked mid-flight)
    pub live_switches: u32,
    pub live_switches_in_transform: u32,
    pub crash_fired: u32,
    pub emitter_crash_fired: u32,
    pub worker_replaced: u32,
    pub globals_restarted: u32,
    pub noise_marks: u32,
    pub diag_while_other_parked: u32,
    pub crash_then_same_worker_reused: u32,
    pub budget_fired: u32,
    pub pure_comment_tasks_in_shared_store: u32,
    /// the baton holder blocked on a lock held by a parked task and the baton was handed on
    #[serde(default)]
    pub blocked_handoffs: u32,
}

struct St {
    holder: Holder,
    pending: Option<Action>,
    slots: Vec<Slot>,
    next_task: usize,
    n_tasks: usize,
    // decision source
    strategy: Strategy,
    rng: Rng,
    script: Vec<Action>,
    script_pos: usize,
    prio: Vec<i64>,
    boundary_fault_pct: u32,
    allow_replace: bool,
    replaces_left: u8,
    restarts_left: u8,
    globals_mode: GlobalsMode,
    // records
    trace: Vec<Action>,
    log: Fnv,
    inter: Fnv,
    last: Option<(u8, u16)>,
    c: Counters,
    results: Vec<TaskResult>,
    task_keys: Vec<u64>,
    /// bumped whenever the baton holder does anything the scheduler sees (watchdog)
    progress: u64,
}

pub struct Sim {
    st: Mutex<St>,
    /// one condvar per worker slot, plus the coordinator's at index `workers`
    cvs: Vec<Condvar>,
    /// signalled when a blocked worker arrives at a yield point
    settle_cv: Condvar,
    done: std::sync::atomic::AtomicBool,
    /// the watchdog naps on this, so that the end of an execution does not have to wait out its nap
    done_mx: Mutex<()>,
    done_cv: Condvar,
    watchdog_ready: std::sync::atomic::AtomicBool,
}

/// Scheduler state of a thread of this process as the kernel sees it ('R' running/runnable,
/// 'S' sleeping, 'D' disk sleep, ...); '?' if it cannot be read.
fn thread_state(tid: i32) -> char {
    let Ok(s) = std::fs::read_to_string(format!("/proc/self/task/{tid}/stat")) else { return '?' };
    s.rsplit_once(") ").and_then(|x| x.1.chars().next()).unwrap_or('?')
}

/// Exit status of a forked run in which every live task is blocked and nothing else can run.
pub const EXIT_DEADLOCK: i32 = 86;

impl Sim {
    fn wake(&self, h: Holder) {
        match h {
            Holder::Coord => self.cvs[self.cvs.len() - 1].notify_one(),
            Holder::Worker(w) => self.cvs[w as usize].notify_one(),
        }
    }
    fn coord_cv(&self) -> &Condvar {
        &self.cvs[self.cvs.len() - 1]
    }
}

impl St {
    fn enabled(&self, current: Option<u8>) -> (Vec<Action>, Vec<Action>) {
        let mut normal = vec![];
        let mut faults = vec![];
        for (w, s) in self.slots.iter().enumerate() {
            if s.parked || current == Some(w as u8) {
                normal.push(Action::Resume(w as u8));
            }
        }
        if self.next_task < self.n_tasks {
            for (w, s) in self.slots.iter().enumerate() {
                if s.busy.is_none() {
                    normal.push(Action::Dispatch(w as u8));
                }
            }
        }
        if current.is_none() && !normal.is_empty() {
            if self.allow_replace && self.replaces_left > 0 {
                for (w, s) in self.slots.iter().enumerate() {
                    if s.busy.is_none() {
                        faults.push(Action::Replace(w as u8));
                    }
                }
            }
            if self.globals_mode == GlobalsMode::Epochs && self.restarts_left > 0 {
                faults.push(Action::Restart);
            }
        }
        (normal, faults)
    }

    fn default_action(normal: &[Action], current: Option<u8>) -> Option<Action> {
        if let Some(w) = current {
            if normal.contains(&Action::Resume(w)) {
                return Some(Action::Resume(w));
            }
        }
        normal.iter().find(|a| matches!(a, Action::Resume(_))).or_else(|| normal.first()).copied()
    }

    /// The single place where anything about the schedule is decided.
    fn decide(&mut self, current: Option<u8>) -> Option<Action> {
        let (normal, faults) = self.enabled(current);
        if normal.is_empty() {
            return None;
        }
        // PCT change points are counted in global events
        if let Strategy::Pct { change_points, .. } = &self.strategy {
            if let Some(i) = change_points.iter().position(|cp| *cp == self.c.events) {
                if let Some(w) = current {
                    if let Some(t) = self.slots[w as usize].busy {
                        self.prio[t as usize] = -(i as i64) - 1;
                    }
                }
            }
        }
        let scripted = if self.script_pos < self.script.len() {
            let a = self.script[self.script_pos];
            self.script_pos += 1;
            if normal.contains(&a) || faults.contains(&a) {
                Some(a)
            } else {
                None
            }
        } else {
            None
        };
        let a = if let Some(a) = scripted {
            a
        } else {
            match &self.strategy {
                Strategy::Script => Self::default_action(&normal, current).unwrap(),
                Strategy::Random { stay } => {
                    let stay = *stay;
                    if !faults.is_empty() && self.boundary_fault_pct > 0 && self.rng.chance(self.boundary_fault_pct) {
                        faults[self.rng.below(faults.len())]
                    } else if current.is_some() && self.rng.chance(stay) {
                        Action::Resume(current.unwrap())
                    } else {
                        normal[self.rng.below(normal.len())]
                    }
                }
                Strategy::Pct { .. } => {
                    if !faults.is_empty() && self.boundary_fault_pct > 0 && self.rng.chance(self.boundary_fault_pct) {
                        faults[self.rng.below(faults.len())]
                    } else {
                        // highest-priority entity among running/parked tasks and the next undispatched one
                        let mut best: Option<(i64, Action)> = None;
                        for a in &normal {
                            let p = match a {
                                Action::Resume(w) => self.prio[self.slots[*w as usize].busy.unwrap() as usize],
                                Action::Dispatch(_) => self.prio[self.next_task],
                                _ => unreachable!(),
                            };
                            // first Dispatch(w) listed wins among equal priorities (lowest idle worker)
                            if best.map(|b| p > b.0).unwrap_or(true) {
                                best = Some((p, *a));
                            }
                        }
                        best.unwrap().1
                    }
                }
            }
        };
        self.trace.push(a);
        Some(a)
    }

    fn event(&mut self, w: u8, t: u16, step: u32, site: &'static str) {
        self.c.events += 1;
        self.log.bytes(&[w]);
        self.log.u64(self.task_keys[t as usize]);
        self.log.u64(step as u64);
        self.log.str(site);
        if self.last != Some((w, t)) {
            self.c.switches += 1;
            if let Some((lw, lt)) = self.last {
                if self.slots[lw as usize].busy == Some(lt) {
                    self.c.live_switches += 1;
                    if self.slots[lw as usize].in_transform && self.slots[w as usize].in_transform {
                        self.c.live_switches_in_transform += 1;
                    }
                }
            }
            self.inter.u64(self.task_keys[t as usize]);
            self.inter.u64(step as u64);
            self.inter.str(site);
            self.last = Some((w, t));
        }
        if site == "diag" && self.slots.iter().enumerate().any(|(i, s)| i != w as usize && s.parked) {
            self.c.diag_while_other_parked += 1;
        }
    }
}

impl Sim {
    /// A worker that was found blocked (see the watchdog) lost the baton while it slept in the
    /// kernel. When whatever it waited for is released it runs on by itself, up to here: its
    /// next yield point or the end of its task, where it reports its arrival and waits until it
    /// is resumed like any other parked task. Returns with the baton held.
    fn ensure_baton<'a>(&'a self, w: u8, mut st: std::sync::MutexGuard<'a, St>) -> std::sync::MutexGuard<'a, St> {
        if st.holder != Holder::Worker(w) {
            st.slots[w as usize].arrived = true;
            self.settle_cv.notify_all();
            while st.holder != Holder::Worker(w) {
                st = self.cvs[w as usize].wait(st).unwrap();
            }
            st.slots[w as usize].parked = false;
        }
        // (a holder that slept and woke by itself while nobody else could run also gets here)
        st.slots[w as usize].blocked = false;
        st.slots[w as usize].arrived = false;
        st
    }

    /// At the two kinds of point where a blocked worker matters - the end of a task, and the
    /// baton holder blocking - every blocked worker must be either still blocked (asleep in the
    /// kernel on three consecutive looks, the scheduler lock released in between) or arrived at
    /// its next yield point (then it becomes an ordinary parked task). A woken one that is still
    /// running towards its yield is waited for. Arrivals are acknowledged nowhere else, so the
    /// set of enabled actions is a function of what the code did, not of timing.
    fn settle<'a>(&'a self, mut st: std::sync::MutexGuard<'a, St>) -> std::sync::MutexGuard<'a, St> {
        let mut asleep = 0;
        loop {
            for s in st.slots.iter_mut() {
                if s.blocked && s.arrived {
                    s.blocked = false;
                    s.parked = true;
                }
            }
            let blocked: Vec<i32> = st.slots.iter().filter(|s| s.blocked).map(|s| s.tid).collect();
            if blocked.is_empty() {
                return st;
            }
            if blocked.iter().all(|t| thread_state(*t) == 'S') {
                asleep += 1;
                if asleep >= 3 {
                    return st;
                }
            } else {
                asleep = 0;
            }
            st = self.settle_cv.wait_timeout(st, std::time::Duration::from_millis(1)).unwrap().0;
        }
    }

    fn hand_over(&self, st: &mut St, a: Action) {
        if let Action::Resume(other) = a {
            st.holder = Holder::Worker(other);
            self.wake(Holder::Worker(other));
        } else {
            st.pending = Some(a);
            st.holder = Holder::Coord;
            self.wake(Holder::Coord);
        }
    }

    /// Runs on its own thread for the duration of one execution. The only thing it does: when the
    /// baton holder has made no progress and has been asleep in the kernel on five consecutive
    /// looks 2 ms apart, the holder is blocked on something a parked task holds (a lock of the
    /// code under test taken around a yield point). Real threads would simply wait; so does the
    /// simulator: the holder keeps waiting, and the baton goes to whoever `decide` picks among
    /// the others.
    fn watchdog(&self) {
        // first allocation of this thread (it attaches the thread to a malloc arena) happens here,
        // before any worker exists: see the start-up comment in `execute`
        drop(std::hint::black_box(Box::new(0u64)));
        self.watchdog_ready.store(true, std::sync::atomic::Ordering::SeqCst);
        let mut last_progress = u64::MAX;
        let mut asleep = 0u32;
        let mut stuck_since: Option<std::time::Instant> = None;
        while !self.done.load(std::sync::atomic::Ordering::SeqCst) {
            {
                let g = self.done_mx.lock().unwrap();
                if self.done.load(std::sync::atomic::Ordering::SeqCst) {
                    break;
                }
                let _ = self.done_cv.wait_timeout(g, std::time::Duration::from_millis(2)).unwrap();
            }
            if self.done.load(std::sync::atomic::Ordering::SeqCst) {
                break;
            }
            let mut st = self.st.lock().unwrap();
            let Holder::Worker(w) = st.holder else {
                asleep = 0;
                continue;
            };
            let progress = st.progress;
            let tid = st.slots[w as usize].tid;
            if progress != last_progress || tid == 0 || thread_state(tid) != 'S' {
                last_progress = progress;
                asleep = 0;
                stuck_since = None;
                continue;
            }
            asleep += 1;
            if asleep < 5 {
                continue;
            }
            // blocked. Is there anybody else who can run?
            st.slots[w as usize].blocked = true;
            st = self.settle(st);
            if st.holder != Holder::Worker(w) || st.progress != progress {
                continue;
            }
            let (normal, _) = st.enabled(None);
            if normal.is_empty() {
                // nobody: either it sleeps and wakes by itself, or this is a deadlock of the code under test
                let s0 = *stuck_since.get_or_insert_with(std::time::Instant::now);
                if s0.elapsed() > std::time::Duration::from_secs(3) {
                    unsafe { libc::_exit(EXIT_DEADLOCK) };
                }
                continue;
            }
            st.c.blocked_handoffs += 1;
            st.progress += 1;
            st.log.str("blocked");
            st.inter.str("blocked");
            let a = st.decide(None).expect("somebody else can run");
            self.hand_over(&mut st, a);
            asleep = 0;
            stuck_since = None;
        }
    }

    /// Called (through `seams::yield_point`) by the worker that holds the baton.
    pub fn yield_from_worker(&self, w: u8, t: u16, step: u32, site: &'static str) {
        let st = self.st.lock().unwrap();
        let mut st = self.ensure_baton(w, st);
        st.progress += 1;
        st.slots[w as usize].in_transform = !site.starts_with("phase.") || site == "phase.resolved";
        st.event(w, t, step, site);
        let a = st.decide(Some(w)).expect("the yielding task is always resumable");
        if a == Action::Resume(w) {
            return; // fast path: keep the baton
        }
        st.slots[w as usize].parked = true;
        self.hand_over(&mut st, a);
        while st.holder != Holder::Worker(w) {
            st = self.cvs[w as usize].wait(st).unwrap();
        }
        st.slots[w as usize].parked = false;
    }
}

fn worker_main(sim: Arc<Sim>, w: u8, key_seed: u64) {
    seams::set_thread_keyseed(key_seed);
    sim.st.lock().unwrap().slots[w as usize].tid = unsafe { libc::syscall(libc::SYS_gettid) } as i32;
    loop {
        let job = {
            let mut st = sim.st.lock().unwrap();
            while st.holder != Holder::Worker(w) {
                st = sim.cvs[w as usize].wait(st).unwrap();
            }
            st.slots[w as usize].mailbox.take()
        };
        match job {
            None => panic!("worker {w} released without a job"),
            Some(Job::Exit) => {
                let mut st = sim.st.lock().unwrap();
                st.holder = Holder::Coord;
                sim.wake(Holder::Coord);
                return;
            }
            Some(Job::Run(j)) => {
                let (generation, after_crash) = {
                    let st = sim.st.lock().unwrap();
                    (st.slots[w as usize].generation, st.slots[w as usize].last_task_crashed)
                };
                let r = run_task(&j, w, Some(sim.clone()), false);
                // Everything the task owned is freed here, while this worker still has the baton: a
                // free that overlaps the coordinator's next allocations would make heap placement a
                // matter of timing (and with it the behaviour of code that looks at addresses).
                let (j_task_idx, j_epoch, j_shared_store, j_crash_planned) = (j.task_idx, j.epoch, j.shared_store, j.task.crash_at.is_some());
                drop(j);
                let st = sim.st.lock().unwrap();
                // (a task that was blocked and then ended by a panic gets here without the baton)
                let mut st = sim.ensure_baton(w, st);
                st.progress += 1;
                let crashed = !matches!(r.outcome, Outcome::Returned(_));
                st.slots[w as usize].last_task_crashed = crashed;
                if r.fault_fired {
                    if j_crash_planned && r.crash_kind_hook {
                        st.c.crash_fired += 1;
                    } else {
                        st.c.emitter_crash_fired += 1;
                    }
                }
                if matches!(r.outcome, Outcome::Budget(_)) {
                    st.c.budget_fired += 1;
                }
                if after_crash {
                    st.c.crash_then_same_worker_reused += 1;
                }
                st.c.noise_marks += r.noise_marks;
                if j_shared_store && r.hit_pure {
                    st.c.pure_comment_tasks_in_shared_store += 1;
                }
                st.results.push(TaskResult {
                    task: j_task_idx,
                    worker: w,
                    generation,
                    epoch: j_epoch,
                    outcome: r.outcome,
                    steps: r.steps,
                    fault_fired: r.fault_fired,
                    residue: r.residue,
                    after_crash_on_same_thread: after_crash,
                });
                st.slots[w as usize].busy = None;
                st.slots[w as usize].in_transform = false;
                st.pending = None;
                st.holder = Holder::Coord;
                sim.wake(Holder::Coord);
            }
        }
    }
}

struct TaskRun {
    outcome: Outcome,
    steps: u32,
    fault_fired: bool,
    crash_kind_hook: bool,
    residue: bool,
    noise_marks: u32,
    hit_pure: bool,
    sites: Option<Vec<&'static str>>,
}

fn run_task(j: &JobData, w: u8, sim: Option<Arc<Sim>>, record_sites: bool) -> TaskRun {
    CTX.with(|c| {
        *c.borrow_mut() = Some(TaskCtx {
            worker: w,
            task: j.task_idx,
            steps: 0,
            budget: j.budget,
            crash_at: j.task.crash_at,
            emitter_crash_at: j.task.emitter_crash_at,
            diags_seen: 0,
            phase: Phase::Setup,
            yield_marks: j.task.noise.yield_marks,
            noise_seed: j.task.noise.seed,
            sim,
            sites: if record_sites { Some(vec![]) } else { None },
            crash_fired: false,
            budget_fired: false,
            marks_allocated_at_yields: 0,
            hit_pure: false,
            diag_sink: None,
        })
    });
    let _ = seams::take_last_panic();
    let r = std::panic::catch_unwind(std::panic::AssertUnwindSafe(|| {
        let fresh;
        let (globals, cm): (&Globals, Lrc<SourceMap>) = match &j.env {
            Some(e) => (&e.globals, e.cm.clone()),
            None => {
                fresh = Globals::new();
                (&fresh, Default::default())
            }
        };
        let comments = if !j.task.comments {
            None
        } else if j.shared_store && j.env.is_some() {
            Some(AnyComments::Shared(j.env.as_ref().unwrap().store.clone()))
        } else {
            Some(AnyComments::Single(Default::default()))
        };
        // a host that deserialises the configuration per file is the plugin host: the configuration string goes
        // to the plugin's entry function (the real plugin/src/lib.rs when it is compiled in)
        let opts = match &j.opts {
            Some(o) => pipeline::Config::Native(o.clone()),
            None => pipeline::Config::Plugin(config_text(&j.task.options)),
        };
        GLOBALS.set(globals, || {
            pipeline::run_file(
                Env { handler: j.handler.as_deref(), cm: &cm, comments, file_name: format!("task{}.{}", j.task_idx, if j.task.ts { "tsx" } else { "jsx" }) },
                &j.task.src,
                j.task.ts,
                j.task.script,
                opts,
                &j.task.noise,
            )
        })
    }));
    let ctx = CTX.with(|c| c.borrow_mut().take()).expect("task context");
    let residue = GLOBALS.is_set() || HANDLER.is_set();
    let mut crash_kind_hook = false;
    let outcome = match r {
        Ok(Ok(out)) => Outcome::Returned(out),
        Ok(Err(e)) => Outcome::ParseFail(e.0),
        Err(p) => {
            if p.is::<Crash>() {
                crash_kind_hook = j.task.crash_at.map(|k| ctx.steps >= k).unwrap_or(false) && j.task.emitter_crash_at.is_none();
                Outcome::Crashed
            } else if p.is::<BudgetExceeded>() {
                Outcome::Budget(ctx.steps)
            } else {
                let msg = seams::take_last_panic().unwrap_or_else(|| "<unknown panic>".into());
                // a panic before the pass was entered is the parser's or the resolver's (swc's lexer panics on a
                // numeric character reference that is a lone surrogate, for one): the module is not a "parseable
                // module" then, and nothing can be said about the pass
                if matches!(ctx.phase, seams::Phase::Setup | seams::Phase::Parse | seams::Phase::Resolve) {
                    Outcome::ParseFail(format!("the host panicked before the pass ran: {msg}"))
                } else {
                    Outcome::Panicked(msg)
                }
            }
        }
    };
    TaskRun {
        outcome,
        steps: ctx.steps,
        fault_fired: ctx.crash_fired,
        crash_kind_hook,
        residue,
        noise_marks: ctx.marks_allocated_at_yields,
        hit_pure: ctx.hit_pure,
        sites: ctx.sites,
    }
}

// ------------------------------------------------------------------ solo (the reference)

#[derive(Clone, Debug, Serialize, Deserialize)]
pub struct SoloResult {
    pub outcome: Outcome,
    pub steps: u32,
    pub sites: Vec<String>,
    pub residue: bool,
}

/// The option set "the host gave the plugin no configuration at all".
pub const NO_CONFIG: &str = "<none>";

pub fn config_text(options: &str) -> Option<String> {
    if options == NO_CONFIG {
        None
    } else {
        Some(options.to_string())
    }
}

pub fn parse_options(json: &str) -> Result<Options, String> {
    if json == NO_CONFIG {
        return Ok(Options::default());
    }
    // the same call as plugin/src/lib.rs:14
    serde_json::from_str::<Options>(json).map_err(|e| e.to_string())
}

/// `solo(m, o, c)`: fresh OS thread, fresh Globals, fresh SourceMap, fresh
/// SingleThreadedComments, no noise, no faults, given hash keys.
/// Must be called inside a fork (see forked.rs); `oracle::References` does that.
pub fn solo_here(task: &PlanTask, key_seed: u64) -> SoloResult {
    let mut t = task.clone();
    t.crash_at = None;
    t.emitter_crash_at = None;
    t.noise = Default::default();
    let opts = Some(parse_options(&t.options).expect("workload options must deserialize"));
    let j = JobData { task_idx: 0, task: t, opts, env: None, handler: None, shared_store: false, epoch: 0, budget: SOLO_STEP_CAP };
    // (VERIF_SOLO_STACK_KIB: diagnostic knob to find workload modules too deep for small host stacks)
    let stack = std::env::var("VERIF_SOLO_STACK_KIB").ok().and_then(|s| s.parse::<usize>().ok()).map(|k| k << 10).unwrap_or(WORKER_STACK);
    std::thread::Builder::new()
        .stack_size(stack)
        .spawn(move || {
            seams::set_thread_keyseed(key_seed);
            let r = run_task(&j, 0, None, true);
            // the site list feeds the systematic sweeps, which only use tasks that returned; it is
            // capped so that a tree on which thousands of tasks run into the step cap cannot blow
            // the solo table up to gigabytes
            let sites: Vec<String> = if matches!(r.outcome, Outcome::Returned(_)) {
                r.sites.unwrap_or_default().into_iter().take(SOLO_SITES_KEPT).map(String::from).collect()
            } else {
                vec![]
            };
            SoloResult { outcome: r.outcome, steps: r.steps, sites, residue: r.residue }
        })
        .expect("spawn solo thread")
        .join()
        .expect("solo thread never panics outside catch_unwind")
}

// ------------------------------------------------------------------ executor

#[derive(Clone, Debug, Serialize, Deserialize)]
pub struct RunRecord {
    pub results: Vec<TaskResult>,
    pub trace: Vec<Action>,
    pub log_hash: u64,
    pub interleaving: u64,
    pub counters: Counters,
}

/// Budget for task i in a simulated run: `max(2000, 20 × solo steps)`.
pub fn sim_budget(solo_steps: u32) -> u32 {
    std::cmp::max(2000, solo_steps.saturating_mul(20))
}

pub fn execute(plan: &Plan, script: Option<&[Action]>, budgets: &[u32]) -> RunRecord {
    assert_eq!(budgets.len(), plan.tasks.len());
    let nw = plan.workers.max(1) as usize;
    let mut opts_cache: BTreeMap<&str, Options> = BTreeMap::new();
    for t in &plan.tasks {
        if !opts_cache.contains_key(t.options.as_str()) {
            // deserialised once per distinct JSON text and cloned into each task, as a host does
            opts_cache.insert(&t.options, parse_options(&t.options).expect("workload options must deserialize"));
        }
    }
    let (strategy, prio) = match (&plan.strategy, script) {
        (Strategy::Pct { priorities, .. }, _) => {
            let mut p: Vec<i64> = priorities.iter().map(|x| *x as i64 + 16).collect();
            p.resize(plan.tasks.len(), 16);
            (plan.strategy.clone(), p)
        }
        (s, _) => (s.clone(), vec![0; plan.tasks.len()]),
    };
    let sim = Arc::new(Sim {
        st: Mutex::new(St {
            holder: Holder::Coord,
            pending: None,
            slots: (0..nw).map(|_| Slot { busy: None, parked: false, generation: 0, mailbox: None, last_task_crashed: false, in_transform: false, tid: 0, blocked: false, arrived: false }).collect(),
            next_task: 0,
            n_tasks: plan.tasks.len(),
            strategy,
            rng: Rng::new(plan.sched_seed),
            script: script.map(|s| s.to_vec()).unwrap_or_default(),
            script_pos: 0,
            prio,
            boundary_fault_pct: plan.boundary_fault_pct,
            allow_replace: plan.allow_replace,
            replaces_left: 3,
            restarts_left: plan.max_restarts,
            globals_mode: plan.globals,
            trace: vec![],
            log: Fnv::default(),
            inter: Fnv::default(),
            last: None,
            c: Counters::default(),
            results: vec![],
            task_keys: plan.tasks.iter().map(|t| fnv_str(&t.key())).collect(),
            progress: 0,
        }),
        cvs: (0..nw + 1).map(|_| Condvar::new()).collect(),
        settle_cv: Condvar::new(),
        done: std::sync::atomic::AtomicBool::new(false),
        done_mx: Mutex::new(()),
        done_cv: Condvar::new(),
        watchdog_ready: std::sync::atomic::AtomicBool::new(false),
    });
    let watchdog = {
        let sim = sim.clone();
        std::thread::Builder::new().name("watchdog".into()).spawn(move || sim.watchdog()).expect("spawn watchdog")
    };
    while !sim.watchdog_ready.load(std::sync::atomic::Ordering::SeqCst) {
        std::thread::yield_now();
    }
    let spawn = |w: usize, generation: u32| {
        let sim = sim.clone();
        let key = mix(plan.key_seed ^ ((w as u64) << 32) ^ generation as u64);
        let stack = plan.stack_kib.get(w).map(|k| (*k as usize) << 10).unwrap_or(WORKER_STACK);
        std::thread::Builder::new()
            .stack_size(stack)
            .spawn(move || worker_main(sim, w as u8, key))
            .expect("spawn worker")
    };
    // Threads are started one at a time, each waited for until it has parked itself: thread start-up
    // allocates (stack, malloc arena), and two threads starting at once would make heap placement -
    // and with it anything in the code under test that looks at addresses - a matter of timing.
    let wait_ready = |w: usize| {
        while sim.st.lock().unwrap().slots[w].tid == 0 {
            std::thread::yield_now();
        }
    };
    let mut handles: Vec<Option<std::thread::JoinHandle<()>>> = vec![];
    for w in 0..nw {
        handles.push(Some(spawn(w, 0)));
        wait_ready(w);
    }
    let mut epoch = 0u32;
    let mut env = EpochEnv::new();
    let shared_handler = if plan.handler_shared {
        Some(Arc::new(swc_core::common::errors::Handler::with_emitter(true, false, Box::new(seams::RoutingEmitter))))
    } else {
        None
    };

    loop {
        let act = {
            let mut st = sim.st.lock().unwrap();
            while st.holder != Holder::Coord {
                st = sim.coord_cv().wait(st).unwrap();
            }
            match st.pending.take() {
                Some(a) => Some(a),
                None => {
                    st = sim.settle(st);
                    st.progress += 1;
                    let mut a = st.decide(None);
                    // nothing can run but a task is still blocked: whoever held what it waits for has
                    // ended, so it wakes by itself and arrives at its next yield point; if it does not,
                    // the code under test deadlocked on its own
                    let t0 = std::time::Instant::now();
                    while a.is_none() && st.slots.iter().any(|s| s.blocked) {
                        if t0.elapsed() > std::time::Duration::from_secs(3) {
                            unsafe { libc::_exit(EXIT_DEADLOCK) };
                        }
                        st = sim.settle_cv.wait_timeout(st, std::time::Duration::from_millis(5)).unwrap().0;
                        a = st.decide(None);
                    }
                    a
                }
            }
        };
        let Some(act) = act else { break };
        match act {
            Action::Resume(w) => {
                let mut st = sim.st.lock().unwrap();
                st.holder = Holder::Worker(w);
                sim.wake(Holder::Worker(w));
            }
            Action::Dispatch(w) => {
                let mut st = sim.st.lock().unwrap();
                let ti = st.next_task;
                st.next_task += 1;
                let t = plan.tasks[ti].clone();
                let opts = if plan.opts_per_task { None } else { Some(opts_cache[t.options.as_str()].clone()) };
                let job = JobData {
                    task_idx: ti as u16,
                    task: t,
                    opts,
                    env: if plan.globals == GlobalsMode::PerTask { None } else { Some(env.clone()) },
                    handler: shared_handler.clone(),
                    shared_store: plan.store == StoreMode::Shared,
                    epoch,
                    budget: budgets[ti],
                };
                st.slots[w as usize].busy = Some(ti as u16);
                st.slots[w as usize].mailbox = Some(Job::Run(Box::new(job)));
                st.holder = Holder::Worker(w);
                sim.wake(Holder::Worker(w));
            }
            Action::Replace(w) => {
                {
                    let mut st = sim.st.lock().unwrap();
                    st.replaces_left -= 1;
                    st.c.worker_replaced += 1;
                    st.slots[w as usize].mailbox = Some(Job::Exit);
                    st.holder = Holder::Worker(w);
                    sim.wake(Holder::Worker(w));
                    while st.holder != Holder::Coord {
                        st = sim.coord_cv().wait(st).unwrap();
                    }
                    st.slots[w as usize].generation += 1;
                    st.slots[w as usize].last_task_crashed = false;
                    st.log.str("replace");
                    st.inter.str("replace");
                }
                handles[w as usize].take().unwrap().join().expect("worker thread");
                let generation = {
                    let mut st = sim.st.lock().unwrap();
                    st.slots[w as usize].tid = 0;
                    st.slots[w as usize].generation
                };
                handles[w as usize] = Some(spawn(w as usize, generation));
                wait_ready(w as usize);
            }
            Action::Restart => {
                let mut st = sim.st.lock().unwrap();
                st.restarts_left -= 1;
                st.c.globals_restarted += 1;
                st.log.str("restart");
                st.inter.str("restart");
                epoch += 1;
                env = EpochEnv::new();
            }
        }
    }
    // retire the workers
    for w in 0..nw {
        {
            let mut st = sim.st.lock().unwrap();
            st.slots[w].mailbox = Some(Job::Exit);
            st.holder = Holder::Worker(w as u8);
            sim.wake(Holder::Worker(w as u8));
            while st.holder != Holder::Coord {
                st = sim.coord_cv().wait(st).unwrap();
            }
        }
        handles[w].take().unwrap().join().expect("worker thread");
    }
    {
        let _g = sim.done_mx.lock().unwrap();
        sim.done.store(true, std::sync::atomic::Ordering::SeqCst);
        sim.done_cv.notify_all();
    }
    let _ = watchdog.join();
    let mut st = sim.st.lock().unwrap();
    let mut results = std::mem::take(&mut st.results);
    // fold results into the log fingerprint
    let mut log = st.log;
    for r in &results {
        log.u64(r.task as u64);
        log.bytes(&[r.worker]);
        log.u64(r.steps as u64);
        match &r.outcome {
            Outcome::Returned(o) => {
                log.str(&o.code);
                log.str(&o.sig);
                log.str(&o.spans);
                for d in &o.diags {
                    log.str(d);
                }
            }
            Outcome::Panicked(m) => log.str(m),
            Outcome::Budget(n) => log.u64(*n as u64),
            Outcome::Crashed => log.str("crashed"),
            Outcome::ParseFail(m) => log.str(m),
            Outcome::Died(m) => log.str(m),
        }
    }
    let mut inter = st.inter;
    for r in &results {
        if r.fault_fired {
            inter.u64(r.task as u64);
            inter.u64(r.steps as u64);
        }
    }
    results.sort_by_key(|r| r.task);
    RunRecord { results, trace: std::mem::take(&mut st.trace), log_hash: log.0, interleaving: inter.0, counters: st.c.clone() }
}
