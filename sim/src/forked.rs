//! Every execution of the code under test happens in a forked copy of a simulator process
//! that has itself never run the code under test. So each execution starts from the state
//! of a fresh process (pristine statics, caches and thread-locals), is independent of the
//! executions before it, and replays exactly in another fresh process; and a real stack
//! overflow, abort or endless loop kills only the fork, and is attributed to that run.
//!
//! Forking is safe here because the forking process is single-threaded at that moment
//! (worker threads exist only inside an execution, i.e. inside a fork).

use std::time::{Duration, Instant};

/// Address-space limit of one execution (the workload needs a few hundred MiB of address space:
/// up to four 64 MiB worker stacks, one 64 MiB-aligned malloc arena per thread).
pub const MEMORY_LIMIT: u64 = 5 << 29; // 2.5 GiB

#[derive(Debug, Clone)]
pub enum Death {
    Signal(i32),
    Timeout(u64),
    Exit(i32),
    Io(String),
}

impl std::fmt::Display for Death {
    fn fmt(&self, f: &mut std::fmt::Formatter<'_>) -> std::fmt::Result {
        match self {
            Death::Signal(s) => write!(
                f,
                "the process was killed by signal {s}{}",
                match *s {
                    11 => " (SIGSEGV: stack overflow)",
                    6 => " (SIGABRT: abort - memory allocation failed under the 2.5 GiB address-space limit, stack overflow detected by the runtime, or a panic while panicking)",
                    _ => "",
                }
            ),
            Death::Timeout(s) => write!(f, "the execution did not finish within {s} s of CPU time (or 4x that + 10 s of wall-clock time): endless loop or deadlock without a yield point in it"),
            Death::Exit(86) => write!(f, "deadlock: every task still in flight is blocked (asleep in the kernel for 3 s) and nothing else can run"),
            Death::Exit(c) => write!(f, "the process exited with status {c}"),
            Death::Io(e) => write!(f, "fork/pipe error: {e}"),
        }
    }
}

/// Runs `f` in a forked child and returns the bytes it produced. `timeout` is a budget of
/// CPU time (RLIMIT_CPU in the child, so that a loaded machine cannot turn a slow run into a
/// "hang"); the wall-clock backstop, for hangs that burn no CPU (deadlock), is 4x that + 10 s.
pub fn run<F: FnOnce() -> Vec<u8>>(f: F, timeout: Duration) -> Result<Vec<u8>, Death> {
    let cpu_secs = timeout.as_secs().max(1);
    let wall = timeout * 4 + Duration::from_secs(10);
    unsafe {
        let mut fds = [0i32; 2];
        if libc::pipe(fds.as_mut_ptr()) != 0 {
            return Err(Death::Io("pipe".into()));
        }
        let pid = libc::fork();
        if pid < 0 {
            libc::close(fds[0]);
            libc::close(fds[1]);
            return Err(Death::Io("fork".into()));
        }
        if pid == 0 {
            // ---- child
            libc::close(fds[0]);
            let lim = libc::rlimit { rlim_cur: cpu_secs as libc::rlim_t, rlim_max: (cpu_secs + 2) as libc::rlim_t };
            libc::setrlimit(libc::RLIMIT_CPU, &lim);
            let mem = libc::rlimit { rlim_cur: MEMORY_LIMIT as libc::rlim_t, rlim_max: MEMORY_LIMIT as libc::rlim_t };
            libc::setrlimit(libc::RLIMIT_AS, &mem);
            let bytes = match std::panic::catch_unwind(std::panic::AssertUnwindSafe(f)) {
                Ok(b) => b,
                Err(_) => libc::_exit(4),
            };
            let mut off = 0usize;
            while off < bytes.len() {
                let n = libc::write(fds[1], bytes.as_ptr().add(off) as *const libc::c_void, bytes.len() - off);
                if n <= 0 {
                    libc::_exit(3);
                }
                off += n as usize;
            }
            libc::close(fds[1]);
            libc::_exit(0);
        }
        // ---- parent
        libc::close(fds[1]);
        let t0 = Instant::now();
        let mut out: Vec<u8> = Vec::new();
        let mut buf = [0u8; 65536];
        let mut timed_out = false;
        loop {
            let left = wall.saturating_sub(t0.elapsed());
            if left.is_zero() {
                timed_out = true;
                break;
            }
            let mut pfd = libc::pollfd { fd: fds[0], events: libc::POLLIN, revents: 0 };
            let r = libc::poll(&mut pfd, 1, left.as_millis().min(1000) as i32);
            if r < 0 {
                let e = *libc::__errno_location();
                if e == libc::EINTR {
                    continue;
                }
                break;
            }
            if r == 0 {
                continue;
            }
            let n = libc::read(fds[0], buf.as_mut_ptr() as *mut libc::c_void, buf.len());
            if n < 0 {
                let e = *libc::__errno_location();
                if e == libc::EINTR {
                    continue;
                }
                break;
            }
            if n == 0 {
                break; // EOF: the child closed its end (exit or death)
            }
            out.extend_from_slice(&buf[..n as usize]);
        }
        libc::close(fds[0]);
        if timed_out {
            libc::kill(pid, libc::SIGKILL);
        }
        let mut status = 0i32;
        loop {
            let r = libc::waitpid(pid, &mut status, 0);
            if r == pid {
                break;
            }
            if r < 0 && *libc::__errno_location() != libc::EINTR {
                return Err(Death::Io("waitpid".into()));
            }
        }
        if timed_out {
            return Err(Death::Timeout(timeout.as_secs()));
        }
        if libc::WIFSIGNALED(status) {
            let sig = libc::WTERMSIG(status);
            if sig == libc::SIGXCPU || sig == libc::SIGKILL {
                // CPU budget exhausted (soft limit: SIGXCPU, hard limit: SIGKILL)
                return Err(Death::Timeout(timeout.as_secs()));
            }
            return Err(Death::Signal(sig));
        }
        let code = libc::WEXITSTATUS(status);
        if code != 0 {
            return Err(Death::Exit(code));
        }
        Ok(out)
    }
}

pub fn run_json<T: serde::de::DeserializeOwned, S: serde::Serialize, F: FnOnce() -> S>(f: F, timeout: Duration) -> Result<T, Death> {
    let bytes = run(|| serde_json::to_vec(&f()).expect("serialise result"), timeout)?;
    serde_json::from_slice(&bytes).map_err(|e| Death::Io(format!("bad result from fork: {e}")))
}

// ------------------------------------------------------------------ fork server
//
// fork() costs time proportional to the resident set of the forking process (3 ms at 90 MB
// in this VM, 0.35 ms at 5 MB). So the forking is done by a tiny server process that is
// itself forked off before the simulator loads anything; requests and results travel over
// pipes as length-prefixed JSON.

pub struct ForkServer {
    to: i32,
    from: i32,
}

unsafe fn write_all(fd: i32, mut b: &[u8]) -> bool {
    while !b.is_empty() {
        let n = libc::write(fd, b.as_ptr() as *const libc::c_void, b.len());
        if n < 0 {
            if *libc::__errno_location() == libc::EINTR {
                continue;
            }
            return false;
        }
        b = &b[n as usize..];
    }
    true
}

unsafe fn read_exact(fd: i32, b: &mut [u8]) -> bool {
    let mut off = 0;
    while off < b.len() {
        let n = libc::read(fd, b.as_mut_ptr().add(off) as *mut libc::c_void, b.len() - off);
        if n < 0 {
            if *libc::__errno_location() == libc::EINTR {
                continue;
            }
            return false;
        }
        if n == 0 {
            return false;
        }
        off += n as usize;
    }
    true
}

/// Result of waiting for a forked execution: (kind, value) with kind 0 = finished normally,
/// 1 = killed by signal `value`, 2 = CPU or wall-clock limit (`value` s), 3 = exit status `value`.
unsafe fn reap(pid: i32, timed_out: bool, timeout_s: u64) -> (u8, i64) {
    if timed_out {
        libc::kill(pid, libc::SIGKILL);
    }
    let mut status = 0i32;
    loop {
        let r = libc::waitpid(pid, &mut status, 0);
        if r == pid {
            break;
        }
        if r < 0 && *libc::__errno_location() != libc::EINTR {
            return (4, 0);
        }
    }
    if timed_out {
        return (2, timeout_s as i64);
    }
    if libc::WIFSIGNALED(status) {
        let sig = libc::WTERMSIG(status);
        if sig == libc::SIGXCPU || sig == libc::SIGKILL {
            return (2, timeout_s as i64);
        }
        return (1, sig as i64);
    }
    let code = libc::WEXITSTATUS(status);
    if code != 0 {
        return (3, code as i64);
    }
    (0, 0)
}

impl ForkServer {
    /// Must be called while this process is still small and single-threaded.
    ///
    /// The server never touches the heap after this point (the request lives in an anonymous
    /// mapping that is unmapped again, output is relayed through a stack buffer), so every
    /// execution is forked from the *same* memory image whatever was executed before; together
    /// with address-space randomisation switched off (main.rs) this makes heap placement inside
    /// an execution a function of the request alone, and a replay in another process exact even
    /// for code that looks at addresses.
    pub fn start(handler: fn(&[u8]) -> Vec<u8>) -> ForkServer {
        unsafe {
            let mut a = [0i32; 2]; // parent -> server
            let mut b = [0i32; 2]; // server -> parent
            assert!(libc::pipe(a.as_mut_ptr()) == 0 && libc::pipe(b.as_mut_ptr()) == 0, "pipe");
            let pid = libc::fork();
            assert!(pid >= 0, "fork");
            if pid == 0 {
                libc::close(a[1]);
                libc::close(b[0]);
                // die with the parent
                libc::prctl(libc::PR_SET_PDEATHSIG, libc::SIGKILL);
                let mut buf = [0u8; 65536];
                loop {
                    let mut hdr = [0u8; 16];
                    if !read_exact(a[0], &mut hdr) {
                        libc::_exit(0);
                    }
                    let len = u64::from_le_bytes(hdr[0..8].try_into().unwrap()) as usize;
                    let timeout_ms = u64::from_le_bytes(hdr[8..16].try_into().unwrap());
                    let map_len = len.max(1);
                    let p = libc::mmap(std::ptr::null_mut(), map_len, libc::PROT_READ | libc::PROT_WRITE, libc::MAP_PRIVATE | libc::MAP_ANONYMOUS, -1, 0);
                    if p == libc::MAP_FAILED {
                        libc::_exit(0);
                    }
                    if !read_exact(a[0], std::slice::from_raw_parts_mut(p as *mut u8, len)) {
                        libc::_exit(0);
                    }
                    let timeout = Duration::from_millis(timeout_ms);
                    let cpu_secs = timeout.as_secs().max(1);
                    let wall = timeout * 4 + Duration::from_secs(10);
                    let mut fds = [0i32; 2];
                    let mut status: (u8, i64) = (4, 0);
                    if libc::pipe(fds.as_mut_ptr()) == 0 {
                        let pid = libc::fork();
                        if pid == 0 {
                            // ---- the execution
                            libc::close(fds[0]);
                            libc::close(a[0]);
                            libc::close(b[1]);
                            let lim = libc::rlimit { rlim_cur: cpu_secs as libc::rlim_t, rlim_max: (cpu_secs + 2) as libc::rlim_t };
                            libc::setrlimit(libc::RLIMIT_CPU, &lim);
                            // runaway allocation must kill this execution (allocation failure aborts), not the machine
                            let mem = libc::rlimit { rlim_cur: MEMORY_LIMIT as libc::rlim_t, rlim_max: MEMORY_LIMIT as libc::rlim_t };
                            libc::setrlimit(libc::RLIMIT_AS, &mem);
                            let req = std::slice::from_raw_parts(p as *const u8, len);
                            let bytes = match std::panic::catch_unwind(|| handler(req)) {
                                Ok(b) => b,
                                Err(_) => libc::_exit(4),
                            };
                            if !write_all(fds[1], &bytes) {
                                libc::_exit(3);
                            }
                            libc::_exit(0);
                        }
                        libc::munmap(p, map_len);
                        libc::close(fds[1]);
                        if pid > 0 {
                            let t0 = Instant::now();
                            let mut timed_out = false;
                            loop {
                                let left = wall.saturating_sub(t0.elapsed());
                                if left.is_zero() {
                                    timed_out = true;
                                    break;
                                }
                                let mut pfd = libc::pollfd { fd: fds[0], events: libc::POLLIN, revents: 0 };
                                let r = libc::poll(&mut pfd, 1, left.as_millis().min(1000) as i32);
                                if r < 0 {
                                    if *libc::__errno_location() == libc::EINTR {
                                        continue;
                                    }
                                    break;
                                }
                                if r == 0 {
                                    continue;
                                }
                                let n = libc::read(fds[0], buf.as_mut_ptr() as *mut libc::c_void, buf.len());
                                if n < 0 {
                                    if *libc::__errno_location() == libc::EINTR {
                                        continue;
                                    }
                                    break;
                                }
                                if n == 0 {
                                    break;
                                }
                                let mut fh = [0u8; 5];
                                fh[1..5].copy_from_slice(&(n as u32).to_le_bytes());
                                if !write_all(b[1], &fh) || !write_all(b[1], &buf[..n as usize]) {
                                    libc::_exit(0);
                                }
                            }
                            status = reap(pid, timed_out, timeout.as_secs());
                        }
                        libc::close(fds[0]);
                    } else {
                        libc::munmap(p, map_len);
                    }
                    let mut fin = [0u8; 10];
                    fin[0] = 1;
                    fin[1] = status.0;
                    fin[2..10].copy_from_slice(&status.1.to_le_bytes());
                    if !write_all(b[1], &fin) {
                        libc::_exit(0);
                    }
                }
            }
            libc::close(a[0]);
            libc::close(b[1]);
            ForkServer { to: a[1], from: b[0] }
        }
    }

    pub fn call(&self, req: &[u8], timeout: Duration) -> Result<Vec<u8>, Death> {
        unsafe {
            let mut msg = Vec::with_capacity(req.len() + 16);
            msg.extend_from_slice(&(req.len() as u64).to_le_bytes());
            msg.extend_from_slice(&(timeout.as_millis() as u64).to_le_bytes());
            msg.extend_from_slice(req);
            if !write_all(self.to, &msg) {
                return Err(Death::Io("fork server gone (write)".into()));
            }
            let mut payload: Vec<u8> = Vec::new();
            loop {
                let mut tag = [0u8; 1];
                if !read_exact(self.from, &mut tag) {
                    return Err(Death::Io("fork server gone (read)".into()));
                }
                if tag[0] == 0 {
                    let mut n = [0u8; 4];
                    if !read_exact(self.from, &mut n) {
                        return Err(Death::Io("fork server gone (frame)".into()));
                    }
                    let n = u32::from_le_bytes(n) as usize;
                    let at = payload.len();
                    payload.resize(at + n, 0);
                    if !read_exact(self.from, &mut payload[at..]) {
                        return Err(Death::Io("fork server gone (payload)".into()));
                    }
                } else {
                    let mut fin = [0u8; 9];
                    if !read_exact(self.from, &mut fin) {
                        return Err(Death::Io("fork server gone (status)".into()));
                    }
                    let v = i64::from_le_bytes(fin[1..9].try_into().unwrap());
                    return match fin[0] {
                        0 => Ok(payload),
                        1 => Err(Death::Signal(v as i32)),
                        2 => Err(Death::Timeout(v as u64)),
                        3 => Err(Death::Exit(v as i32)),
                        _ => Err(Death::Io("fork/pipe failed in the fork server".into())),
                    };
                }
            }
        }
    }
}

static SERVER: std::sync::OnceLock<ForkServer> = std::sync::OnceLock::new();

pub fn start_server(handler: fn(&[u8]) -> Vec<u8>) {
    let _ = SERVER.set(ForkServer::start(handler));
}

pub fn call_json<T: serde::de::DeserializeOwned, R: serde::Serialize>(req: &R, timeout: Duration) -> Result<T, Death> {
    let server = SERVER.get().expect("fork server started");
    let bytes = server.call(&serde_json::to_vec(req).expect("serialise request"), timeout)?;
    serde_json::from_slice(&bytes).map_err(|e| Death::Io(format!("bad result from fork: {e}")))
}
