//! Every execution of the code under test happens in a forked copy of a simulator process
//! that has itself never run the code under test. So each execution starts from the state
//! of a fresh process (pristine statics, caches and thread-locals), is independent of the
//! executions before it, and replays exactly in another fresh process; and a real stack
//! overflow, abort or endless loop kills only the fork, and is attributed to that run.
//!
//! Forking is safe here because the forking process is single-threaded at that moment
//! (worker threads exist only inside an execution, i.e. inside a fork).

use std::time::{Duration, Instant};

#[derive(Debug, Clone)]
pub enum Death {
    Signal(i32),
    Timeout(u64),
    Exit(i32),
    Io(String),
}

impl std::fmt::Display for Death {
    fn fmt(&self, f: &mut std::fmt::Formatter<'_>) -> std::fmt::Result {
        match self {
            Death::Signal(s) => write!(
                f,
                "the process was killed by signal {s}{}",
                match *s {
                    11 => " (SIGSEGV: stack overflow)",
                    6 => " (SIGABRT: abort, e.g. stack overflow detected by the runtime or a panic while panicking)",
                    _ => "",
                }
            ),
            Death::Timeout(s) => write!(f, "the execution did not finish within {s} s of CPU time (or 4x that + 10 s of wall-clock time): endless loop or deadlock without a yield point in it"),
            Death::Exit(c) => write!(f, "the process exited with status {c}"),
            Death::Io(e) => write!(f, "fork/pipe error: {e}"),
        }
    }
}

/// Runs `f` in a forked child and returns the bytes it produced. `timeout` is a budget of
/// CPU time (RLIMIT_CPU in the child, so that a loaded machine cannot turn a slow run into a
/// "hang"); the wall-clock backstop, for hangs that burn no CPU (deadlock), is 4x that + 10 s.
pub fn run<F: FnOnce() -> Vec<u8>>(f: F, timeout: Duration) -> Result<Vec<u8>, Death> {
    let cpu_secs = timeout.as_secs().max(1);
    let wall = timeout * 4 + Duration::from_secs(10);
    unsafe {
        let mut fds = [0i32; 2];
        if libc::pipe(fds.as_mut_ptr()) != 0 {
            return Err(Death::Io("pipe".into()));
        }
        let pid = libc::fork();
        if pid < 0 {
            libc::close(fds[0]);
            libc::close(fds[1]);
            return Err(Death::Io("fork".into()));
        }
        if pid == 0 {
            // ---- child
            libc::close(fds[0]);
            let lim = libc::rlimit { rlim_cur: cpu_secs as libc::rlim_t, rlim_max: (cpu_secs + 2) as libc::rlim_t };
            libc::setrlimit(libc::RLIMIT_CPU, &lim);
            let bytes = match std::panic::catch_unwind(std::panic::AssertUnwindSafe(f)) {
                Ok(b) => b,
                Err(_) => libc::_exit(4),
            };
            let mut off = 0usize;
            while off < bytes.len() {
                let n = libc::write(fds[1], bytes.as_ptr().add(off) as *const libc::c_void, bytes.len() - off);
                if n <= 0 {
                    libc::_exit(3);
                }
                off += n as usize;
            }
            libc::close(fds[1]);
            libc::_exit(0);
        }
        // ---- parent
        libc::close(fds[1]);
        let t0 = Instant::now();
        let mut out: Vec<u8> = Vec::new();
        let mut buf = [0u8; 65536];
        let mut timed_out = false;
        loop {
            let left = wall.saturating_sub(t0.elapsed());
            if left.is_zero() {
                timed_out = true;
                break;
            }
            let mut pfd = libc::pollfd { fd: fds[0], events: libc::POLLIN, revents: 0 };
            let r = libc::poll(&mut pfd, 1, left.as_millis().min(1000) as i32);
            if r < 0 {
                let e = *libc::__errno_location();
                if e == libc::EINTR {
                    continue;
                }
                break;
            }
            if r == 0 {
                continue;
            }
            let n = libc::read(fds[0], buf.as_mut_ptr() as *mut libc::c_void, buf.len());
            if n < 0 {
                let e = *libc::__errno_location();
                if e == libc::EINTR {
                    continue;
                }
                break;
            }
            if n == 0 {
                break; // EOF: the child closed its end (exit or death)
            }
            out.extend_from_slice(&buf[..n as usize]);
        }
        libc::close(fds[0]);
        if timed_out {
            libc::kill(pid, libc::SIGKILL);
        }
        let mut status = 0i32;
        loop {
            let r = libc::waitpid(pid, &mut status, 0);
            if r == pid {
                break;
            }
            if r < 0 && *libc::__errno_location() != libc::EINTR {
                return Err(Death::Io("waitpid".into()));
            }
        }
        if timed_out {
            return Err(Death::Timeout(timeout.as_secs()));
        }
        if libc::WIFSIGNALED(status) {
            let sig = libc::WTERMSIG(status);
            if sig == libc::SIGXCPU || sig == libc::SIGKILL {
                // CPU budget exhausted (soft limit: SIGXCPU, hard limit: SIGKILL)
                return Err(Death::Timeout(timeout.as_secs()));
            }
            return Err(Death::Signal(sig));
        }
        let code = libc::WEXITSTATUS(status);
        if code != 0 {
            return Err(Death::Exit(code));
        }
        Ok(out)
    }
}

pub fn run_json<T: serde::de::DeserializeOwned, S: serde::Serialize, F: FnOnce() -> S>(f: F, timeout: Duration) -> Result<T, Death> {
    let bytes = run(|| serde_json::to_vec(&f()).expect("serialise result"), timeout)?;
    serde_json::from_slice(&bytes).map_err(|e| Death::Io(format!("bad result from fork: {e}")))
}

// ------------------------------------------------------------------ fork server
//
// fork() costs time proportional to the resident set of the forking process (3 ms at 90 MB
// in this VM, 0.35 ms at 5 MB). So the forking is done by a tiny server process that is
// itself forked off before the simulator loads anything; requests and results travel over
// pipes as length-prefixed JSON.

pub struct ForkServer {
    to: i32,
    from: i32,
}

unsafe fn write_all(fd: i32, mut b: &[u8]) -> bool {
    while !b.is_empty() {
        let n = libc::write(fd, b.as_ptr() as *const libc::c_void, b.len());
        if n < 0 {
            if *libc::__errno_location() == libc::EINTR {
                continue;
            }
            return false;
        }
        b = &b[n as usize..];
    }
    true
}

unsafe fn read_exact(fd: i32, b: &mut [u8]) -> bool {
    let mut off = 0;
    while off < b.len() {
        let n = libc::read(fd, b.as_mut_ptr().add(off) as *mut libc::c_void, b.len() - off);
        if n < 0 {
            if *libc::__errno_location() == libc::EINTR {
                continue;
            }
            return false;
        }
        if n == 0 {
            return false;
        }
        off += n as usize;
    }
    true
}

impl ForkServer {
    /// Must be called while this process is still small and single-threaded.
    pub fn start(handler: fn(&[u8]) -> Vec<u8>) -> ForkServer {
        unsafe {
            let mut a = [0i32; 2]; // parent -> server
            let mut b = [0i32; 2]; // server -> parent
            assert!(libc::pipe(a.as_mut_ptr()) == 0 && libc::pipe(b.as_mut_ptr()) == 0, "pipe");
            let pid = libc::fork();
            assert!(pid >= 0, "fork");
            if pid == 0 {
                libc::close(a[1]);
                libc::close(b[0]);
                // die with the parent
                libc::prctl(libc::PR_SET_PDEATHSIG, libc::SIGKILL);
                loop {
                    let mut hdr = [0u8; 16];
                    if !read_exact(a[0], &mut hdr) {
                        libc::_exit(0);
                    }
                    let len = u64::from_le_bytes(hdr[0..8].try_into().unwrap()) as usize;
                    let timeout_ms = u64::from_le_bytes(hdr[8..16].try_into().unwrap());
                    let mut req = vec![0u8; len];
                    if !read_exact(a[0], &mut req) {
                        libc::_exit(0);
                    }
                    let (tag, payload): (u8, Vec<u8>) = match run(|| handler(&req), Duration::from_millis(timeout_ms)) {
                        Ok(bytes) => (0, bytes),
                        Err(Death::Signal(s)) => (1, (s as i64).to_le_bytes().to_vec()),
                        Err(Death::Timeout(s)) => (2, (s as i64).to_le_bytes().to_vec()),
                        Err(Death::Exit(c)) => (3, (c as i64).to_le_bytes().to_vec()),
                        Err(Death::Io(e)) => (4, e.into_bytes()),
                    };
                    let mut out = Vec::with_capacity(payload.len() + 9);
                    out.push(tag);
                    out.extend_from_slice(&(payload.len() as u64).to_le_bytes());
                    out.extend_from_slice(&payload);
                    if !write_all(b[1], &out) {
                        libc::_exit(0);
                    }
                }
            }
            libc::close(a[0]);
            libc::close(b[1]);
            ForkServer { to: a[1], from: b[0] }
        }
    }

    pub fn call(&self, req: &[u8], timeout: Duration) -> Result<Vec<u8>, Death> {
        unsafe {
            let mut msg = Vec::with_capacity(req.len() + 16);
            msg.extend_from_slice(&(req.len() as u64).to_le_bytes());
            msg.extend_from_slice(&(timeout.as_millis() as u64).to_le_bytes());
            msg.extend_from_slice(req);
            if !write_all(self.to, &msg) {
                return Err(Death::Io("fork server gone (write)".into()));
            }
            let mut hdr = [0u8; 9];
            if !read_exact(self.from, &mut hdr) {
                return Err(Death::Io("fork server gone (read)".into()));
            }
            let len = u64::from_le_bytes(hdr[1..9].try_into().unwrap()) as usize;
            let mut payload = vec![0u8; len];
            if !read_exact(self.from, &mut payload) {
                return Err(Death::Io("fork server gone (payload)".into()));
            }
            let num = || i64::from_le_bytes(payload[0..8].try_into().unwrap());
            match hdr[0] {
                0 => Ok(payload),
                1 => Err(Death::Signal(num() as i32)),
                2 => Err(Death::Timeout(num() as u64)),
                3 => Err(Death::Exit(num() as i32)),
                _ => Err(Death::Io(String::from_utf8_lossy(&payload).to_string())),
            }
        }
    }
}

static SERVER: std::sync::OnceLock<ForkServer> = std::sync::OnceLock::new();

pub fn start_server(handler: fn(&[u8]) -> Vec<u8>) {
    let _ = SERVER.set(ForkServer::start(handler));
}

pub fn call_json<T: serde::de::DeserializeOwned, R: serde::Serialize>(req: &R, timeout: Duration) -> Result<T, Death> {
    let server = SERVER.get().expect("fork server started");
    let bytes = server.call(&serde_json::to_vec(req).expect("serialise request"), timeout)?;
    serde_json::from_slice(&bytes).map_err(|e| Death::Io(format!("bad result from fork: {e}")))
}
