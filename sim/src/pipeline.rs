//! One task = one file pushed through parse ▸ resolver ▸ VueJsxTransformVisitor ▸ codegen,
//! the way a native host (or the WASM host around the plugin) does it.

use crate::seams::{self, AnyComments, CollectEmitter, Phase};
use serde::{Deserialize, Serialize};
use std::sync::{Arc, Mutex};
use swc_core::common::{
    errors::{Handler, HANDLER},
    sync::Lrc,
    FileName, Mark, SourceMap, Span, SyntaxContext,
};
use swc_core::ecma::{
    ast::*,
    atoms::Atom,
    codegen::{text_writer::JsWriter, Config as CgConfig, Emitter as CgEmitter},
    parser::{parse_file_as_module, parse_file_as_script, EsSyntax, Syntax, TsSyntax},
    transforms::base::resolver,
    visit::{visit_mut_pass, Visit, VisitWith},
};
use swc_vue_jsx_visitor::{Options, VueJsxTransformVisitor};

/// Legal perturbations of the environment of one task (never part of its input).
#[derive(Clone, Debug, Default, Serialize, Deserialize, PartialEq, Eq)]
pub struct Noise {
    /// marks/contexts somebody else allocated before this file's resolver ran (S1/S7)
    pub marks_before: u8,
    /// other files registered in the source map first (absolute positions)
    pub pad_files: u8,
    /// unrelated atoms interned on the worker first (S6)
    pub atoms: u8,
    /// `Span::dummy_with_cmt()` calls made by somebody else first (S2)
    pub dummy_cnt: u8,
    /// up to this many marks allocated by "somebody else" at each yield of this task
    pub yield_marks: u8,
    /// heap blocks of assorted sizes allocated on the worker first, every other one freed again
    /// (what else lives in the host's heap; shifts which addresses the task's allocations get)
    #[serde(default)]
    pub heap: u8,
    pub seed: u64,
}

impl Noise {
    pub fn is_zero(&self) -> bool {
        self.marks_before == 0 && self.pad_files == 0 && self.atoms == 0 && self.dummy_cnt == 0 && self.yield_marks == 0 && self.heap == 0
    }
}

/// What is compared between a simulated execution and the solo reference (§3.1 of DESIGN.md).
#[derive(Clone, Debug, PartialEq, Eq, Serialize, Deserialize)]
pub struct Output {
    /// bytes printed by swc_ecma_codegen from the pass's output AST (PURE markers included)
    pub code: String,
    /// every identifier in traversal order as sym#k, k = first-occurrence index of its SyntaxContext
    pub sig: String,
    /// diagnostics as "Level: message @lo..hi" with file-relative positions
    pub diags: Vec<String>,
    /// every span of the output AST in traversal order, file-relative (`d` for the dummy span, `p` for
    /// a `dummy_with_cmt` position, `F` for a position outside this file), as "count:fingerprint" -
    /// what a host's source map is made from
    #[serde(default)]
    pub spans: String,
}

#[derive(Default)]
struct Sig {
    ctxts: Vec<SyntaxContext>,
    out: String,
    file: (u32, u32),
    nspans: u64,
    span_fp: crate::rng::Fnv,
    first_spans: String,
}
/// positions handed out by `Span::dummy_with_cmt()` start here (swc_common::syntax_pos::DUMMY_RESERVE)
const DUMMY_RESERVE: u32 = u32::MAX - (1 << 16);
impl Sig {
    fn span(&mut self, s: &Span) {
        let txt = if s.lo.0 == 0 && s.hi.0 == 0 {
            "d".to_string()
        } else if s.lo.0 >= DUMMY_RESERVE {
            "p".to_string()
        } else if s.lo.0 >= self.file.0 && s.hi.0 <= self.file.1 && s.lo.0 <= s.hi.0 {
            format!("{}-{}", s.lo.0 - self.file.0, s.hi.0 - self.file.0)
        } else {
            "F".to_string()
        };
        self.nspans += 1;
        self.span_fp.str(&txt);
        self.span_fp.bytes(b",");
        if self.nspans <= 400 {
            self.first_spans.push_str(&txt);
            self.first_spans.push(' ');
        }
    }
}
impl Visit for Sig {
    fn visit_span(&mut self, s: &Span) {
        self.span(s);
    }
    fn visit_ident(&mut self, i: &Ident) {
        self.span(&i.span);
        let k = self.ctxts.iter().position(|x| *x == i.ctxt).unwrap_or_else(|| {
            self.ctxts.push(i.ctxt);
            self.ctxts.len() - 1
        });
        self.out.push_str(&i.sym);
        self.out.push('#');
        self.out.push_str(&k.to_string());
        self.out.push(' ');
    }
}

pub struct Env<'a> {
    /// the host's shared diagnostics handler, if it has one
    pub handler: Option<&'a Handler>,
    pub cm: &'a Lrc<SourceMap>,
    pub comments: Option<AnyComments>,
    pub file_name: String,
}

pub struct ParseError(pub String);

/// How the configuration reaches the pass.
pub enum Config {
    /// native embedding: the host deserialised the configuration itself and constructs the visitor
    Native(Options),
    /// plugin: the host hands over the configuration string (None: no configuration) and calls the
    /// plugin's entry function - the real `/repo/plugin/src/lib.rs`, see sim/plugin-entry
    #[allow(dead_code)]
    Plugin(Option<String>),
}

pub const PLUGIN_ENTRY_COMPILED: bool = cfg!(feature = "plugin-entry");

/// Runs inside `GLOBALS.set` on the calling thread. Yields (through `seams::yield_point`)
/// between phases; everything in between that can yield is a hook inside the pass or a seam.
pub fn run_file(env: Env<'_>, src: &str, ts: bool, script: bool, cfg: Config, noise: &Noise) -> Result<Output, ParseError> {
    seams::set_phase(Phase::Setup);
    for i in 0..noise.pad_files {
        env.cm.new_source_file(FileName::Custom(format!("pad{i}")).into(), " ".repeat(1 + (noise.seed as usize + i as usize * 7) % 97));
    }
    if noise.atoms > 0 {
        seams::NOISE_ATOMS.with(|a| {
            let mut a = a.borrow_mut();
            for i in 0..noise.atoms {
                a.push(Atom::from(format!("noise_{}_{}", noise.seed % 1000, i)));
            }
        });
    }
    for _ in 0..noise.dummy_cnt {
        let _ = Span::dummy_with_cmt();
    }
    if noise.heap > 0 {
        seams::NOISE_HEAP.with(|h| {
            let mut h = h.borrow_mut();
            let mut x = noise.seed.wrapping_mul(0x9E37_79B9_7F4A_7C15) | 1;
            let mut tmp: Vec<Vec<u8>> = vec![];
            for i in 0..noise.heap as usize * 4 {
                x ^= x << 13;
                x ^= x >> 7;
                x ^= x << 17;
                let size = [16usize, 24, 32, 48, 64, 96, 128, 256, 512, 1024, 4096][(x % 11) as usize];
                let b = vec![0u8; size];
                if i % 2 == 0 {
                    h.push(b);
                } else {
                    tmp.push(b);
                }
            }
            drop(tmp);
        });
    }

    let diags = Arc::new(Mutex::new(vec![]));
    let fm = env.cm.new_source_file(FileName::Custom(env.file_name.clone()).into(), src.to_string());
    let own_handler;
    let handler: &Handler = match env.handler {
        Some(h) => {
            seams::CTX.with(|c| {
                if let Some(c) = c.borrow_mut().as_mut() {
                    c.diag_sink = Some((diags.clone(), fm.start_pos.0));
                }
            });
            h
        }
        None => {
            own_handler = Handler::with_emitter(true, false, Box::new(CollectEmitter { out: diags.clone(), file_start: fm.start_pos.0 }));
            &own_handler
        }
    };
    let comments = env.comments;
    let cm = env.cm;
    let file_name = env.file_name.clone();
    let _ = &file_name;

    let r = HANDLER.set(handler, || -> Result<(String, String, String), ParseError> {
        seams::set_phase(Phase::Parse);
        let syntax = if ts {
            Syntax::Typescript(TsSyntax { tsx: true, ..Default::default() })
        } else {
            Syntax::Es(EsSyntax { jsx: true, ..Default::default() })
        };
        let mut errs = vec![];
        let c = comments.as_ref().map(|c| c as &dyn swc_core::common::comments::Comments);
        let mut program = if script {
            Program::Script(parse_file_as_script(&fm, syntax, Default::default(), c, &mut errs).map_err(|e| ParseError(format!("{:?}", e.kind())))?)
        } else {
            Program::Module(parse_file_as_module(&fm, syntax, Default::default(), c, &mut errs).map_err(|e| ParseError(format!("{:?}", e.kind())))?)
        };
        seams::yield_point("phase.parsed");

        seams::set_phase(Phase::Resolve);
        // (not every mark gets a context of its own: the resolver, for one, allocates a mark per scope
        // but a context only for scopes that bind something - so mark and context numbers drift apart)
        for i in 0..noise.marks_before {
            let m = Mark::new();
            if (noise.seed >> (i % 48)) & 1 == 0 {
                let _ = SyntaxContext::empty().apply_mark(m);
            }
        }
        let unresolved_mark = Mark::new();
        let top_level_mark = Mark::new();
        program.mutate(resolver(unresolved_mark, top_level_mark, ts));
        seams::yield_point("phase.resolved");

        seams::set_phase(Phase::Transform);
        match cfg {
            Config::Native(opts) => program.mutate(visit_mut_pass(VueJsxTransformVisitor::new(opts, unresolved_mark, comments.clone()))),
            #[cfg(feature = "plugin-entry")]
            Config::Plugin(config) => {
                use verif_plugin_entry::shim::{PluginCommentsProxy, PluginSourceMapProxy, TransformPluginProgramMetadata};
                let metadata = TransformPluginProgramMetadata {
                    comments: comments.clone().map(|c| PluginCommentsProxy(std::rc::Rc::new(c))),
                    source_map: PluginSourceMapProxy { file_name: Some(file_name.clone()) },
                    unresolved_mark,
                    config,
                };
                program = verif_plugin_entry::plugin_transform_entry(program, metadata);
            }
            #[cfg(not(feature = "plugin-entry"))]
            Config::Plugin(config) => {
                let opts = match config {
                    Some(json) => serde_json::from_str::<Options>(&json).expect("failed to parse config of plugin 'vue-jsx'"),
                    None => Options::default(),
                };
                program.mutate(visit_mut_pass(VueJsxTransformVisitor::new(opts, unresolved_mark, comments.clone())))
            }
        }
        seams::yield_point("phase.transformed");

        seams::set_phase(Phase::Print);
        let mut sig = Sig { file: (fm.start_pos.0, fm.end_pos.0), ..Default::default() };
        program.visit_with(&mut sig);
        let mut buf = vec![];
        {
            let mut e = CgEmitter {
                cfg: CgConfig::default(),
                cm: cm.clone(),
                comments: comments.as_ref().map(|c| c as &dyn swc_core::common::comments::Comments),
                wr: JsWriter::new(cm.clone(), "\n", &mut buf, None),
            };
            e.emit_program(&program).expect("codegen writes to a Vec");
        }
        Ok((String::from_utf8(buf).expect("codegen emits utf-8"), sig.out, format!("{}:{:016x} {}", sig.nspans, sig.span_fp.0, sig.first_spans.trim_end())))
    });
    let (code, sig, spans) = r?;
    let d = diags.lock().unwrap().clone();
    Ok(Output { code, sig, diags: d, spans })
}
