//! The fixed workload: W1 = /repo's own fixtures (discovered at check time), W2 = the
//! hand-written modules under /verif/workload. The search is over schedules and faults,
//! never over programs.

use crate::plan::PlanTask;
use std::path::{Path, PathBuf};

/// The repository's own fixtures (W1); ./check exports VERIF_REPO (default /repo).
pub fn fixture_dir() -> String {
    format!("{}/visitor/tests/fixture", std::env::var("VERIF_REPO").unwrap_or_else(|_| "/repo".to_string()))
}

pub struct Module {
    pub name: String,
    pub src: String,
    pub ts: bool,
    /// the module's own configuration (config.json / <name>.json), if any
    pub own: Option<String>,
    /// `<name>.only-own` exists: run under the module's own configuration only (modules that are
    /// expensive because they document a known finding)
    pub only_own: bool,
    /// this entry is the module handed to the pass as a Script
    pub as_script: bool,
}

pub fn opt_sets(m: &Module) -> Vec<(String, String)> {
    let mut v: Vec<(String, String)> = vec![];
    let own = m.own.clone().unwrap_or_else(|| {
        if m.ts {
            r#"{"optimize":true,"resolveType":true}"#.to_string()
        } else {
            // what visitor/tests/fixture.rs uses when there is no config.json
            r#"{"optimize":true}"#.to_string()
        }
    });
    v.push(("own".into(), own));
    if m.only_own {
        return v;
    }
    v.push(("default".into(), "{}".into()));
    if m.name.starts_with("fixture/") || m.name.starts_with("w2/state/") {
        // the host gave no configuration at all (plugin/src/lib.rs: `.unwrap_or_default()`)
        v.push(("absent".into(), crate::sched::NO_CONFIG.into()));
    }
    v.push((
        "all".into(),
        r#"{"transformOn":true,"optimize":true,"mergeProps":true,"enableObjectSlots":true,"resolveType":true,"customElementPatterns":["^x-","^El[A-Z]"]}"#.into(),
    ));
    v.push((
        "inverse".into(),
        r#"{"transformOn":true,"optimize":false,"mergeProps":false,"enableObjectSlots":false,"resolveType":true,"pragma":"h"}"#.into(),
    ));
    // a strength-3 covering array over the seven option factors (every combination of values of any
    // three options occurs in some row), so that a defect that needs a particular option combination
    // does not hide behind the handful of hand-picked sets above
    const ROWS: [[u8; 7]; 12] = [
        [0, 0, 0, 0, 0, 0, 0],
        [1, 1, 1, 1, 1, 1, 1],
        [1, 1, 0, 1, 0, 0, 0],
        [1, 0, 1, 0, 0, 1, 1],
        [0, 1, 0, 0, 1, 0, 1],
        [0, 0, 1, 1, 1, 1, 0],
        [1, 0, 0, 0, 1, 1, 0],
        [0, 1, 0, 1, 0, 1, 1],
        [1, 1, 1, 0, 1, 0, 0],
        [0, 0, 1, 1, 0, 0, 1],
        [0, 1, 1, 0, 0, 1, 0],
        [1, 0, 0, 1, 1, 0, 1],
    ];
    for (i, r) in ROWS.iter().enumerate() {
        let b = |x: u8| if x == 1 { "true" } else { "false" };
        let mut j = format!(
            r#"{{"transformOn":{},"optimize":{},"mergeProps":{},"enableObjectSlots":{},"resolveType":{}"#,
            b(r[0]), b(r[1]), b(r[2]), b(r[3]), b(r[4])
        );
        if r[5] == 1 {
            j.push_str(r#","customElementPatterns":["^x-","^El[A-Z]","^unknown-"]"#);
        }
        if r[6] == 1 {
            j.push_str(r#","pragma":"h""#);
        }
        j.push('}');
        v.push((format!("c{i:02}"), j));
    }
    // drop textual duplicates (keep the first name)
    let mut out: Vec<(String, String)> = vec![];
    for (n, j) in v {
        let norm: String = j.chars().filter(|c| !c.is_whitespace()).collect();
        if !out.iter().any(|(_, k)| k.chars().filter(|c| !c.is_whitespace()).collect::<String>() == norm) {
            out.push((n, j));
        }
    }
    out
}

fn walk(d: &Path, out: &mut Vec<PathBuf>) {
    let Ok(rd) = std::fs::read_dir(d) else { return };
    let mut entries: Vec<PathBuf> = rd.filter_map(|e| e.ok().map(|e| e.path())).collect();
    entries.sort();
    for p in entries {
        if p.is_dir() {
            walk(&p, out)
        } else {
            out.push(p)
        }
    }
}

pub fn discover(workload_dir: &str) -> Vec<Module> {
    let mut mods = vec![];
    // W1
    let mut files = vec![];
    let fixture_dir = fixture_dir();
    walk(Path::new(&fixture_dir), &mut files);
    for p in files {
        let fname = p.file_name().unwrap().to_string_lossy().to_string();
        if fname == "input.jsx" || fname == "input.tsx" {
            let Ok(src) = std::fs::read_to_string(&p) else { continue };
            let own = std::fs::read_to_string(p.with_file_name("config.json")).ok();
            let rel = p.strip_prefix(&fixture_dir).unwrap().to_string_lossy().to_string();
            mods.push(Module { name: format!("fixture/{rel}"), src, ts: fname.ends_with(".tsx"), own, only_own: false, as_script: false });
        }
    }
    // W2
    let mut files = vec![];
    walk(Path::new(workload_dir), &mut files);
    for p in files {
        let ext = p.extension().map(|e| e.to_string_lossy().to_string()).unwrap_or_default();
        if ext == "jsx" || ext == "tsx" {
            let src = std::fs::read_to_string(&p).expect("workload file readable");
            let own = std::fs::read_to_string(p.with_extension("json")).ok();
            let rel = p.strip_prefix(workload_dir).unwrap().to_string_lossy().to_string();
            let only_own = p.with_extension("only-own").exists();
            mods.push(Module { name: format!("w2/{rel}"), src, ts: ext == "tsx", own, only_own, as_script: false });
        }
    }
    // the same sources as Scripts, where that is possible (no import / export at statement level)
    let mut scripts = vec![];
    for m in &mods {
        let modular = m.src.lines().any(|l| {
            let t = l.trim_start();
            t.starts_with("import ") || t.starts_with("import{") || t.starts_with("import*") || t.starts_with("export ") || t.starts_with("export{") || t.starts_with("export*")
        });
        if !modular && !m.only_own {
            scripts.push(Module { name: format!("{}#script", m.name), src: m.src.clone(), ts: m.ts, own: m.own.clone(), only_own: false, as_script: true });
        }
    }
    mods.extend(scripts);
    mods
}

/// All (module × option set × comments) task templates, no faults, no noise.
pub fn tasks(mods: &[Module]) -> Vec<PlanTask> {
    let mut out = vec![];
    for m in mods {
        for (on, oj) in opt_sets(m) {
            if m.as_script && on != "own" && on != "all" {
                continue;
            }
            for comments in [true, false] {
                if m.as_script && !comments {
                    continue;
                }
                // the rows of the covering array run with a comments store only (own / default / all / inverse /
                // absent run both ways, and stratum gen draws option sets for comment-less hosts too)
                if on.starts_with('c') && on.len() == 3 && !comments {
                    continue;
                }
                out.push(PlanTask {
                    name: m.name.clone(),
                    opt_name: on.clone(),
                    src: m.src.clone(),
                    ts: m.ts,
                    options: oj.clone(),
                    comments,
                    script: m.as_script,
                    crash_at: None,
                    emitter_crash_at: None,
                    noise: Default::default(),
                });
            }
        }
    }
    out
}
