//! The oracle: every task of a simulated execution that was not itself fault-injected
//! must equal `solo(m, o, c)` byte for byte (D), must have returned (T), and must leave
//! nothing behind on its worker (R). The reference is computed from the same tree, at
//! check time, never stored.

use crate::forked::{self, Death};
use crate::plan::{encode_script, Action, Expected, Plan, PlanTask};
use crate::rng::fnv_str;
use crate::sched::{self, Counters, Outcome, RunRecord, SoloResult};
use serde::{Deserialize, Serialize};
use std::collections::HashMap;
use std::rc::Rc;
use std::time::Duration;

/// `solo(m, o, c)` for every task asked about, each computed in its own forked process
/// (fresh statics, fresh thread, fresh Globals, its own hash keys) and memoised.
pub struct References {
    map: HashMap<(String, bool, String, bool, bool), Rc<SoloResult>>,
    pub key_seed: u64,
    pub computed: u64,
    pub timeout: Duration,
}

impl References {
    pub fn new(key_seed: u64, timeout: Duration) -> Self {
        References { map: HashMap::new(), key_seed, computed: 0, timeout }
    }
    pub fn get(&mut self, t: &PlanTask) -> Rc<SoloResult> {
        let k = (t.src.clone(), t.ts, t.options.clone(), t.comments, t.script);
        if let Some(r) = self.map.get(&k) {
            return r.clone();
        }
        self.computed += 1;
        let key = self.key_seed ^ fnv_str(&t.key());
        let r: SoloResult = match forked::call_json(&Request::Solo { task: t.clone(), key_seed: key }, self.timeout) {
            Ok(r) => r,
            Err(d) => {
                self.note_death(&d);
                SoloResult { outcome: Outcome::Died(d.to_string()), steps: 0, sites: vec![], residue: false }
            }
        };
        let r = Rc::new(r);
        self.map.insert(k, r.clone());
        r
    }
    /// After the first execution that had to be killed for not finishing, later ones get a
    /// short leash (a real execution takes milliseconds): a tree that loops on many workload
    /// modules must not turn the check into hours of waiting.
    pub fn note_death(&mut self, d: &Death) {
        if let Death::Timeout(_) = d {
            self.timeout = self.timeout.min(Duration::from_secs(30));
        }
    }
    /// Drops a memoised reference (generated tasks are used once).
    pub fn forget(&mut self, t: &PlanTask) {
        self.map.remove(&(t.src.clone(), t.ts, t.options.clone(), t.comments, t.script));
    }
    /// Hands over a reference computed elsewhere (the shared solo table).
    pub fn preload(&mut self, t: &PlanTask, r: SoloResult) {
        self.map.insert((t.src.clone(), t.ts, t.options.clone(), t.comments, t.script), Rc::new(r));
    }
    pub fn budgets(&mut self, plan: &Plan) -> Vec<u32> {
        plan.tasks.iter().map(|t| sched::sim_budget(self.get(t).steps)).collect()
    }
}

#[derive(Clone, Debug, Serialize, Deserialize)]
pub struct Violation {
    /// "D" determinism/isolation, "T" totality, "R" residue after a crash
    pub clause: String,
    pub task_idx: usize,
    pub task_key: String,
    pub component: String,
    pub fingerprint: String,
    pub detail: Vec<String>,
}

impl Violation {
    /// D and R are one class (R is D stated for the crash case).
    pub fn class(&self) -> &'static str {
        if self.clause == "T" {
            "T"
        } else {
            "D"
        }
    }
    pub fn same_as(&self, other: &Violation) -> bool {
        self.class() == other.class() && self.task_key == other.task_key && self.component == other.component
    }
    pub fn is_death(&self) -> bool {
        self.task_key == WHOLE_RUN
    }
    pub fn expected(&self) -> Expected {
        Expected { clause: self.clause.to_string(), task: self.task_key.clone(), component: self.component.clone(), fingerprint: self.fingerprint.clone() }
    }
    pub fn matches_expected(&self, e: &Expected) -> bool {
        let class = if e.clause == "T" { "T" } else { "D" };
        self.class() == class && self.task_key == e.task && self.component == e.component && (self.is_death() || self.fingerprint == e.fingerprint)
    }
}

fn fp(s: &str) -> String {
    format!("{:016x}", fnv_str(s))
}

fn first_diff_lines(a: &str, b: &str) -> Vec<String> {
    let la: Vec<&str> = a.lines().collect();
    let lb: Vec<&str> = b.lines().collect();
    for i in 0..la.len().max(lb.len()) {
        let x = la.get(i).copied().unwrap_or("<end>");
        let y = lb.get(i).copied().unwrap_or("<end>");
        if x != y {
            return vec![format!("line {}: solo: {}", i + 1, x), format!("line {}: sim : {}", i + 1, y)];
        }
    }
    vec![]
}

#[derive(Clone, Debug, Serialize, Deserialize, Default)]
pub struct Checked {
    pub violations: Vec<Violation>,
    pub parse_failures: Vec<String>,
    pub tasks_compared: u32,
    pub tasks_faulted: u32,
}

/// Solo-only check of one task (stratum 1, and the T part of any replay).
pub fn check_solo(idx: usize, t: &PlanTask, solo: &SoloResult) -> Option<Violation> {
    match &solo.outcome {
        Outcome::Returned(_) | Outcome::ParseFail(_) => {
            if solo.residue {
                Some(Violation { clause: "R".into(), task_idx: idx, task_key: t.key(), component: "residue".into(), fingerprint: "solo".into(), detail: vec!["GLOBALS or HANDLER still set after the task ended (solo)".into()] })
            } else {
                None
            }
        }
        Outcome::Panicked(m) => Some(Violation {
            clause: "T".into(),
            task_idx: idx,
            task_key: t.key(),
            component: format!("panic: {m}"),
            fingerprint: "solo".into(),
            detail: vec![format!("the transform panicked on this module alone: {m}")],
        }),
        Outcome::Budget(n) => Some(Violation {
            clause: "T".into(),
            task_idx: idx,
            task_key: t.key(),
            component: "budget".into(),
            fingerprint: "solo".into(),
            detail: vec![format!("the transform did not finish within {n} simulator steps on this module alone (runaway recursion or loop)")],
        }),
        Outcome::Died(m) => Some(Violation {
            clause: "T".into(),
            task_idx: idx,
            task_key: t.key(),
            component: "process-death".into(),
            fingerprint: "solo".into(),
            detail: vec![format!("the transform did not survive this module alone: {m}")],
        }),
        Outcome::Crashed => unreachable!("solo injects no faults"),
    }
}

pub fn check(plan: &Plan, rec: &RunRecord, refs: &mut References) -> Checked {
    let mut out = Checked::default();
    // T on the workload itself
    for (i, t) in plan.tasks.iter().enumerate() {
        let solo = refs.get(t);
        if let Outcome::ParseFail(m) = &solo.outcome {
            out.parse_failures.push(format!("{}: {}", t.key(), m));
        }
        if let Some(v) = check_solo(i, t, &solo) {
            if !out.violations.iter().any(|x: &Violation| x.same_as(&v)) {
                out.violations.push(v);
            }
        }
    }
    for r in &rec.results {
        let i = r.task as usize;
        let t = &plan.tasks[i];
        let solo = refs.get(t);
        if r.residue {
            out.violations.push(Violation {
                clause: "R".into(),
                task_idx: i,
                task_key: t.key(),
                component: "residue".into(),
                fingerprint: "scoped-tls".into(),
                detail: vec!["GLOBALS or HANDLER still set on the worker after the task ended".into()],
            });
        }
        if r.fault_fired {
            out.tasks_faulted += 1;
            continue;
        }
        let Outcome::Returned(want) = &solo.outcome else { continue };
        out.tasks_compared += 1;
        let clause_d = if r.after_crash_on_same_thread { "R" } else { "D" };
        match &r.outcome {
            Outcome::Returned(got) => {
                let (comp, a, b) = if got.code != want.code {
                    ("code", want.code.clone(), got.code.clone())
                } else if got.sig != want.sig {
                    ("sig", want.sig.replace(' ', "\n"), got.sig.replace(' ', "\n"))
                } else if got.diags != want.diags && !plan.handler_shared {
                    ("diags", want.diags.join("\n"), got.diags.join("\n"))
                } else if got.spans != want.spans {
                    ("spans", want.spans.replace(' ', "\n"), got.spans.replace(' ', "\n"))
                } else {
                    continue;
                };
                let mut detail = vec![format!("task #{i} {} on worker {} (generation {}, epoch {}) differs from its solo result in `{comp}`", t.key(), r.worker, r.generation, r.epoch)];
                detail.extend(first_diff_lines(&a, &b));
                out.violations.push(Violation { clause: clause_d.into(), task_idx: i, task_key: t.key(), component: comp.into(), fingerprint: fp(&b), detail });
            }
            Outcome::Panicked(m) => out.violations.push(Violation {
                clause: "T".into(),
                task_idx: i,
                task_key: t.key(),
                component: format!("panic: {m}"),
                fingerprint: "sim".into(),
                detail: vec![format!("task #{i} {} panicked in the simulated run (it returns when run alone): {m}", t.key())],
            }),
            Outcome::Budget(n) => out.violations.push(Violation {
                clause: "T".into(),
                task_idx: i,
                task_key: t.key(),
                component: "budget".into(),
                fingerprint: "sim".into(),
                detail: vec![format!("task #{i} {} exceeded its step budget ({n} steps; {} alone)", t.key(), solo.steps)],
            }),
            Outcome::Crashed => unreachable!("Crashed implies fault_fired"),
            Outcome::ParseFail(m) => out.parse_failures.push(format!("{}: {}", t.key(), m)),
            Outcome::Died(_) => unreachable!("only solo references die"),
        }
    }
    out
}

/// What comes back from the fork that executed and checked one run.
#[derive(Clone, Debug, Serialize, Deserialize)]
pub struct Summary {
    pub counters: Counters,
    pub log_hash: u64,
    pub interleaving: u64,
    pub trace: Vec<Action>,
    pub checked: Checked,
}

pub const WHOLE_RUN: &str = "*";

pub fn death_violation(d: &Death) -> Violation {
    Violation {
        clause: "T".into(),
        task_idx: 0,
        task_key: WHOLE_RUN.into(),
        component: "process-death".into(),
        fingerprint: match d {
            Death::Signal(s) => format!("signal {s}"),
            Death::Timeout(_) => "timeout".into(),
            Death::Exit(c) => format!("exit {c}"),
            Death::Io(_) => "io".into(),
        },
        detail: vec![format!("the simulated host process did not survive this run: {d}")],
    }
}

/// Executes (plan, script) in a fork of this (pristine) process and checks it there against
/// the references, which must already be memoised (call `refs.budgets(plan)` first).
pub fn run_forked(plan: &Plan, script: Option<&[Action]>, refs: &mut References) -> Result<Summary, Death> {
    let budgets = refs.budgets(plan);
    let solos: Vec<SoloResult> = plan
        .tasks
        .iter()
        .map(|t| {
            let r = refs.get(t);
            SoloResult { outcome: r.outcome.clone(), steps: r.steps, sites: vec![], residue: r.residue }
        })
        .collect();
    let r = forked::call_json(&Request::Run { plan: plan.clone(), script: script.map(|s| s.to_vec()), solos, budgets }, refs.timeout);
    if let Err(d) = &r {
        refs.note_death(d);
    }
    r
}

/// What the fork server's grandchildren are asked to do.
#[derive(Serialize, Deserialize)]
pub enum Request {
    Solo { task: PlanTask, key_seed: u64 },
    Run { plan: Plan, script: Option<Vec<Action>>, solos: Vec<SoloResult>, budgets: Vec<u32> },
}

/// Runs in the forked grandchild: the only place where the code under test executes.
pub fn handle_request(bytes: &[u8]) -> Vec<u8> {
    let req: Request = serde_json::from_slice(bytes).expect("request");
    match req {
        Request::Solo { task, key_seed } => serde_json::to_vec(&sched::solo_here(&task, key_seed)).unwrap(),
        Request::Run { plan, script, solos, budgets } => {
            let mut refs = References::new(0, Duration::from_secs(1));
            for (t, s) in plan.tasks.iter().zip(solos) {
                refs.map.insert((t.src.clone(), t.ts, t.options.clone(), t.comments, t.script), Rc::new(s));
            }
            let rec: RunRecord = sched::execute(&plan, script.as_deref(), &budgets);
            let checked = check(&plan, &rec, &mut refs);
            serde_json::to_vec(&Summary { counters: rec.counters, log_hash: rec.log_hash, interleaving: rec.interleaving, trace: rec.trace, checked }).unwrap()
        }
    }
}

/// All violations of one run, a process death counting as one.
pub fn violations_of(plan: &Plan, refs: &mut References, r: &Result<Summary, Death>) -> Vec<Violation> {
    match r {
        Ok(s) => s.checked.violations.clone(),
        Err(d) => {
            // the run died before it could report; what is known without it: T on each module alone
            let mut out: Vec<Violation> = vec![];
            for (i, t) in plan.tasks.iter().enumerate() {
                if let Some(v) = check_solo(i, t, &refs.get(t)) {
                    if !out.iter().any(|x| x.same_as(&v)) {
                        out.push(v);
                    }
                }
            }
            out.push(death_violation(d));
            out
        }
    }
}

#[allow(dead_code)]
pub fn encode(trace: &[Action]) -> Vec<String> {
    encode_script(trace)
}
