//! The oracle: every task of a simulated execution that was not itself fault-injected
//! must equal `solo(m, o, c)` byte for byte (D), must have returned (T), and must leave
//! nothing behind on its worker (R). The reference is computed from the same tree, at
//! check time, never stored.

use crate::plan::{Expected, Plan, PlanTask};
use crate::rng::fnv_str;
use crate::sched::{self, Outcome, RunRecord, SoloResult};
use std::collections::HashMap;
use std::rc::Rc;

#[derive(Default)]
pub struct References {
    map: HashMap<(String, bool, String, bool), Rc<SoloResult>>,
    pub key_seed: u64,
    pub computed: u64,
}

impl References {
    pub fn new(key_seed: u64) -> Self {
        References { map: HashMap::new(), key_seed, computed: 0 }
    }
    pub fn get(&mut self, t: &PlanTask) -> Rc<SoloResult> {
        let k = (t.src.clone(), t.ts, t.options.clone(), t.comments);
        if let Some(r) = self.map.get(&k) {
            return r.clone();
        }
        self.computed += 1;
        let r = Rc::new(sched::solo(t, self.key_seed ^ fnv_str(&t.key())));
        self.map.insert(k, r.clone());
        r
    }
    pub fn budgets(&mut self, plan: &Plan) -> Vec<u32> {
        plan.tasks.iter().map(|t| sched::sim_budget(self.get(t).steps)).collect()
    }
}

#[derive(Clone, Debug)]
pub struct Violation {
    /// "D" determinism/isolation, "T" totality, "R" residue after a crash
    pub clause: &'static str,
    pub task_idx: usize,
    pub task_key: String,
    pub component: String,
    pub fingerprint: String,
    pub detail: Vec<String>,
}

impl Violation {
    /// D and R are one class (R is D stated for the crash case).
    pub fn class(&self) -> &'static str {
        if self.clause == "T" {
            "T"
        } else {
            "D"
        }
    }
    pub fn same_as(&self, other: &Violation) -> bool {
        self.class() == other.class() && self.task_key == other.task_key && self.component == other.component
    }
    pub fn expected(&self) -> Expected {
        Expected { clause: self.clause.to_string(), task: self.task_key.clone(), component: self.component.clone(), fingerprint: self.fingerprint.clone() }
    }
    pub fn matches_expected(&self, e: &Expected) -> bool {
        let class = if e.clause == "T" { "T" } else { "D" };
        self.class() == class && self.task_key == e.task && self.component == e.component && self.fingerprint == e.fingerprint
    }
}

fn fp(s: &str) -> String {
    format!("{:016x}", fnv_str(s))
}

fn first_diff_lines(a: &str, b: &str) -> Vec<String> {
    let la: Vec<&str> = a.lines().collect();
    let lb: Vec<&str> = b.lines().collect();
    for i in 0..la.len().max(lb.len()) {
        let x = la.get(i).copied().unwrap_or("<end>");
        let y = lb.get(i).copied().unwrap_or("<end>");
        if x != y {
            return vec![format!("line {}: solo: {}", i + 1, x), format!("line {}: sim : {}", i + 1, y)];
        }
    }
    vec![]
}

pub struct Checked {
    pub violations: Vec<Violation>,
    pub parse_failures: Vec<String>,
    pub tasks_compared: u32,
    pub tasks_faulted: u32,
}

/// Solo-only check of one task (stratum 1, and the T part of any replay).
pub fn check_solo(idx: usize, t: &PlanTask, solo: &SoloResult) -> Option<Violation> {
    match &solo.outcome {
        Outcome::Returned(_) | Outcome::ParseFail(_) => {
            if solo.residue {
                Some(Violation { clause: "R", task_idx: idx, task_key: t.key(), component: "residue".into(), fingerprint: "solo".into(), detail: vec!["GLOBALS or HANDLER still set after the task ended (solo)".into()] })
            } else {
                None
            }
        }
        Outcome::Panicked(m) => Some(Violation {
            clause: "T",
            task_idx: idx,
            task_key: t.key(),
            component: format!("panic: {m}"),
            fingerprint: "solo".into(),
            detail: vec![format!("the transform panicked on this module alone: {m}")],
        }),
        Outcome::Budget(n) => Some(Violation {
            clause: "T",
            task_idx: idx,
            task_key: t.key(),
            component: "budget".into(),
            fingerprint: "solo".into(),
            detail: vec![format!("the transform did not finish within {n} simulator steps on this module alone (runaway recursion or loop)")],
        }),
        Outcome::Crashed => unreachable!("solo injects no faults"),
    }
}

pub fn check(plan: &Plan, rec: &RunRecord, refs: &mut References) -> Checked {
    let mut out = Checked { violations: vec![], parse_failures: vec![], tasks_compared: 0, tasks_faulted: 0 };
    // T on the workload itself
    for (i, t) in plan.tasks.iter().enumerate() {
        let solo = refs.get(t);
        if let Outcome::ParseFail(m) = &solo.outcome {
            out.parse_failures.push(format!("{}: {}", t.key(), m));
        }
        if let Some(v) = check_solo(i, t, &solo) {
            if !out.violations.iter().any(|x: &Violation| x.same_as(&v)) {
                out.violations.push(v);
            }
        }
    }
    for r in &rec.results {
        let i = r.task as usize;
        let t = &plan.tasks[i];
        let solo = refs.get(t);
        if r.residue {
            out.violations.push(Violation {
                clause: "R",
                task_idx: i,
                task_key: t.key(),
                component: "residue".into(),
                fingerprint: "scoped-tls".into(),
                detail: vec!["GLOBALS or HANDLER still set on the worker after the task ended".into()],
            });
        }
        if r.fault_fired {
            out.tasks_faulted += 1;
            continue;
        }
        let Outcome::Returned(want) = &solo.outcome else { continue };
        out.tasks_compared += 1;
        let clause_d: &'static str = if r.after_crash_on_same_thread { "R" } else { "D" };
        match &r.outcome {
            Outcome::Returned(got) => {
                let (comp, a, b) = if got.code != want.code {
                    ("code", want.code.clone(), got.code.clone())
                } else if got.sig != want.sig {
                    ("sig", want.sig.replace(' ', "\n"), got.sig.replace(' ', "\n"))
                } else if got.diags != want.diags {
                    ("diags", want.diags.join("\n"), got.diags.join("\n"))
                } else {
                    continue;
                };
                let mut detail = vec![format!("task #{i} {} on worker {} (generation {}, epoch {}) differs from its solo result in `{comp}`", t.key(), r.worker, r.generation, r.epoch)];
                detail.extend(first_diff_lines(&a, &b));
                out.violations.push(Violation { clause: clause_d, task_idx: i, task_key: t.key(), component: comp.into(), fingerprint: fp(&b), detail });
            }
            Outcome::Panicked(m) => out.violations.push(Violation {
                clause: "T",
                task_idx: i,
                task_key: t.key(),
                component: format!("panic: {m}"),
                fingerprint: "sim".into(),
                detail: vec![format!("task #{i} {} panicked in the simulated run (it returns when run alone): {m}", t.key())],
            }),
            Outcome::Budget(n) => out.violations.push(Violation {
                clause: "T",
                task_idx: i,
                task_key: t.key(),
                component: "budget".into(),
                fingerprint: "sim".into(),
                detail: vec![format!("task #{i} {} exceeded its step budget ({n} steps; {} alone)", t.key(), solo.steps)],
            }),
            Outcome::Crashed => unreachable!("Crashed implies fault_fired"),
            Outcome::ParseFail(m) => out.parse_failures.push(format!("{}: {}", t.key(), m)),
        }
    }
    out
}
