//! Deterministic simulation with fault injection for swc-plugin-vue-jsx, property C08.
//! See /verif/DESIGN.md.

mod child;
mod forked;
mod gen;
mod minimise;
mod oracle;
mod pipeline;
mod plan;
mod rng;
mod sched;
mod seams;
mod strata;
mod supervisor;
mod workload;

use plan::*;
use std::time::Duration;

fn arg(args: &[String], name: &str) -> Option<String> {
    args.iter().position(|a| a == name).and_then(|i| args.get(i + 1).cloned())
}
fn flag(args: &[String], name: &str) -> bool {
    args.iter().any(|a| a == name)
}

fn init_sim() {
    seams::install_panic_hook();
    swc_vue_jsx_visitor::verif_hooks::install(seams::yield_point);
    verif_sync::install(seams::yield_point);
    if !seams::getrandom_seam_effective() {
        println!("HARNESS-ERROR: the getrandom seam does not control std's hash keys in this build");
        std::process::exit(2);
    }
    // from here on the code under test only ever runs in grandchildren of this (still tiny) process
    forked::start_server(oracle::handle_request);
}

fn env_seed() -> u64 {
    std::env::var("VERIF_SEED").ok().and_then(|s| s.trim().parse::<u64>().ok()).unwrap_or(1)
}

const ALL_STRATA: &str = "gen,crash,preempt,siblings,duel,long,random";

/// Commands that execute the code under test (through the fork server).
const SIM_CMDS: [&str; 7] = ["child", "solo-slice", "mkreplay", "replay-inner", "solo", "forkbench", "hashes"];

/// Before anything is allocated: (1) switch address-space randomisation off for this process
/// image (re-exec once with ADDR_NO_RANDOMIZE), (2) start the fork server. Nothing here depends
/// on the arguments beyond argv[1], and nothing touches the heap, so the memory image every
/// execution is forked from is the same in the process that finds a violation and in the
/// process that replays it.
fn early_init() {
    unsafe {
        let mut buf = [0u8; 16384];
        let fd = libc::open(b"/proc/self/cmdline\0".as_ptr() as *const libc::c_char, libc::O_RDONLY);
        if fd < 0 {
            return;
        }
        let mut n = 0usize;
        loop {
            let r = libc::read(fd, buf.as_mut_ptr().add(n) as *mut libc::c_void, buf.len() - 1 - n);
            if r <= 0 {
                break;
            }
            n += r as usize;
        }
        libc::close(fd);
        // argv as NUL-separated strings
        let mut ptrs: [*const libc::c_char; 66] = [std::ptr::null(); 66];
        let mut argc = 0usize;
        let mut start = 0usize;
        for i in 0..n {
            if buf[i] == 0 {
                if argc < 64 {
                    ptrs[argc] = buf.as_ptr().add(start) as *const libc::c_char;
                    argc += 1;
                }
                start = i + 1;
            }
        }
        if argc < 2 || argc >= 64 {
            return;
        }
        let cmd = std::ffi::CStr::from_ptr(ptrs[1]).to_bytes();
        if !SIM_CMDS.iter().any(|c| c.as_bytes() == cmd) {
            return;
        }
        const ADDR_NO_RANDOMIZE: libc::c_ulong = 0x0040000;
        let cur = libc::personality(0xffff_ffff);
        if cur >= 0 && (cur as libc::c_ulong & ADDR_NO_RANDOMIZE) == 0 {
            if libc::personality(cur as libc::c_ulong | ADDR_NO_RANDOMIZE) >= 0 {
                libc::execv(b"/proc/self/exe\0".as_ptr() as *const libc::c_char, ptrs.as_ptr());
                // exec failed: carry on with randomisation (replays of address-dependent code may then not be exact)
            }
        }
    }
    init_sim();
}

fn main() {
    early_init();
    let args: Vec<String> = std::env::args().collect();
    let cmd = args.get(1).map(|s| s.as_str()).unwrap_or("");
    let verif_dir = arg(&args, "--verif").unwrap_or_else(|| "/verif".to_string());
    let code = match cmd {
        "check" => {
            let tier = arg(&args, "--tier").or_else(|| std::env::var("VERIF_TIER").ok()).unwrap_or_else(|| "quick".into());
            let thorough = tier == "thorough";
            let seed = arg(&args, "--seed").and_then(|s| s.parse().ok()).unwrap_or_else(env_seed);
            let cores = std::thread::available_parallelism().map(|n| n.get() as u64).unwrap_or(4);
            let children = arg(&args, "--children").and_then(|s| s.parse().ok()).unwrap_or(cores.clamp(2, 16));
            let random_runs = arg(&args, "--random-runs").and_then(|s| s.parse().ok()).unwrap_or(if thorough { 2_000_000 } else { 20_000 });
            let strata = arg(&args, "--strata").unwrap_or_else(|| ALL_STRATA.into());
            supervisor::check_main(supervisor::CheckArgs {
                seed,
                thorough,
                children: children.max(2),
                random_runs,
                verif_dir,
                strata: strata.split(',').filter(|s| !s.is_empty()).map(String::from).collect(),
                audit_every: arg(&args, "--audit-every").and_then(|s| s.parse().ok()).unwrap_or(100),
                write_evidence: !flag(&args, "--no-evidence"),
                run_timeout_s: arg(&args, "--run-timeout").and_then(|s| s.parse().ok()).unwrap_or(60),
                first_only: flag(&args, "--first-only"),
            })
        }
        "child" => {
            child::child_main(child::ChildArgs {
                seed: arg(&args, "--seed").and_then(|s| s.parse().ok()).unwrap_or(1),
                thorough: arg(&args, "--tier").as_deref() == Some("thorough"),
                index: arg(&args, "--index").and_then(|s| s.parse().ok()).unwrap_or(0),
                of: arg(&args, "--of").and_then(|s| s.parse().ok()).unwrap_or(1),
                random_runs: arg(&args, "--random-runs").and_then(|s| s.parse().ok()).unwrap_or(1000),
                workload_dir: arg(&args, "--workload").unwrap_or_else(|| format!("{verif_dir}/workload")),
                out_dir: arg(&args, "--out").unwrap_or_else(|| format!("{verif_dir}/replays/tmp")),
                audit_every: arg(&args, "--audit-every").and_then(|s| s.parse().ok()).unwrap_or(100),
                only: arg(&args, "--only").and_then(|s| s.split_once(':').map(|(a, b)| (a.to_string(), b.parse().unwrap_or(0)))),
                strata: arg(&args, "--strata").unwrap_or_else(|| ALL_STRATA.into()).split(',').filter(|s| !s.is_empty()).map(String::from).collect(),
                max_minimise: arg(&args, "--max-minimise").and_then(|s| s.parse().ok()).unwrap_or(3),
                run_timeout_s: arg(&args, "--run-timeout").and_then(|s| s.parse().ok()).unwrap_or(60),
                solo_table: arg(&args, "--solo-table"),
            })
        }
        "solo-slice" => {
            child::slice_main(
                &arg(&args, "--workload").unwrap_or_else(|| format!("{verif_dir}/workload")),
                arg(&args, "--seed").and_then(|s| s.parse().ok()).unwrap_or(1),
                arg(&args, "--index").and_then(|s| s.parse().ok()).unwrap_or(0),
                arg(&args, "--of").and_then(|s| s.parse().ok()).unwrap_or(1),
                &arg(&args, "--out").expect("--out"),
                Duration::from_secs(arg(&args, "--run-timeout").and_then(|s| s.parse().ok()).unwrap_or(60)),
            )
        }
        "mkreplay" => {
            mkreplay(&args, &verif_dir)
        }
        "replay-inner" => {
            replay_inner(args.get(2).expect("replay file"))
        }
        "replay" => {
            let path = args.get(2).expect("replay file");
            match supervisor::confirm_replay(path, Duration::from_secs(300)) {
                Ok((true, out)) => {
                    print!("{out}");
                    println!("VIOLATION property=C08 replay={path}");
                    1
                }
                Ok((false, out)) => {
                    print!("{out}");
                    println!("replay of {path}: the recorded violation does not occur on this tree");
                    0
                }
                Err(e) => {
                    println!("HARNESS-ERROR: {e}");
                    2
                }
            }
        }
        "solo" => {
            let path = args.get(2).expect("file");
            let opts = args.get(3).cloned().unwrap_or_else(|| "{}".into());
            let src = std::fs::read_to_string(path).expect("read");
            let t = PlanTask { name: path.clone(), opt_name: "cli".into(), src, ts: path.ends_with(".tsx"), options: opts, comments: !flag(&args, "--no-comments"), script: flag(&args, "--script"), crash_at: None, emitter_crash_at: None, noise: Default::default() };
            let r = oracle::References::new(7, Duration::from_secs(60)).get(&t);
            match &r.outcome {
                sched::Outcome::Returned(o) => {
                    println!("{}", o.code);
                    println!("// sig: {}", o.sig);
                    println!("// spans: {}", o.spans);
                    for d in &o.diags {
                        println!("// diag: {d}");
                    }
                }
                o => println!("{o:?}"),
            }
            println!("// steps: {}  sites: {:?}", r.steps, r.sites);
            0
        }
        "forkbench" => {
            let ld = if flag(&args, "--small") { None } else { Some(child::load(&format!("{verif_dir}/workload"), 1, false, Duration::from_secs(60))) };
            let n = 2000;
            let t0 = std::time::Instant::now();
            for _ in 0..n {
                let _ = forked::run(|| vec![1u8], Duration::from_secs(5)).unwrap();
            }
            println!("trivial fork: {:?} each", t0.elapsed() / n);
            let t0 = std::time::Instant::now();
            for _ in 0..n {
                let t = &ld.as_ref().unwrap().tasks[0];
                let _ = oracle::References::new(1, Duration::from_secs(5)).get(t);
            }
            println!("fork + thread: {:?} each", t0.elapsed() / n);
            drop(ld);
            0
        }
        "hashes" => {
            // event-log fingerprints of a slice of a stratum (used to prove the simulator deterministic)
            let seed = arg(&args, "--seed").and_then(|s| s.parse().ok()).unwrap_or(1);
            let index: u64 = arg(&args, "--index").and_then(|s| s.parse().ok()).unwrap_or(0);
            let of: u64 = arg(&args, "--of").and_then(|s| s.parse().ok()).unwrap_or(1);
            let from: u64 = arg(&args, "--from").and_then(|s| s.parse().ok()).unwrap_or(0);
            let to: u64 = arg(&args, "--to").and_then(|s| s.parse().ok()).unwrap_or(100);
            let stratum = arg(&args, "--stratum").unwrap_or_else(|| "random".into());
            let ld = child::load(&arg(&args, "--workload").unwrap_or_else(|| format!("{verif_dir}/workload")), rng::mix(seed ^ index), false, Duration::from_secs(60));
            let mut refs = ld.refs;
            let world = strata::World::build(seed, false, ld.tasks, ld.info);
            let to = to.min(world.len(&stratum, to));
            for run in from..to {
                if run % of != index {
                    continue;
                }
                let (mut plan, script) = world.plan(&stratum, run);
                if stratum == "gen" {
                    let prep = child::prepare_gen(&mut plan, &mut refs);
                    if plan.tasks.is_empty() {
                        println!("{stratum} {run} empty generated={} unparseable={} violations={}", prep.generated, prep.unparseable, prep.violations.len());
                        continue;
                    }
                }
                match oracle::run_forked(&plan, if script.is_empty() { None } else { Some(&script) }, &mut refs) {
                    Ok(rec) => println!("{stratum} {run} {:016x} {:016x} {} {}", rec.log_hash, rec.interleaving, rec.trace.len(), rec.checked.violations.len()),
                    Err(d) => println!("{stratum} {run} died: {d}"),
                }
            }
            0
        }
        _ => {
            eprintln!("usage: vuejsx-sim check|child|replay|replay-inner|mkreplay|solo|hashes ...");
            2
        }
    };
    std::process::exit(code);
}

fn mkreplay(args: &[String], verif_dir: &str) -> i32 {
    let seed = arg(args, "--seed").and_then(|s| s.parse().ok()).unwrap_or(1);
    let thorough = arg(args, "--tier").as_deref() == Some("thorough");
    let stratum = arg(args, "--stratum").expect("--stratum");
    let run: u64 = arg(args, "--run").and_then(|s| s.parse().ok()).unwrap_or(0);
    let out = arg(args, "--out").expect("--out");
    let workload_dir = arg(args, "--workload").unwrap_or_else(|| format!("{verif_dir}/workload"));
    let single = |t: PlanTask, stratum: &str| Plan {
        seed,
        stratum: stratum.into(),
        run,
        workers: 1,
        globals: GlobalsMode::PerTask,
        store: StoreMode::PerTask,
        strategy: Strategy::Script,
        boundary_fault_pct: 0,
        allow_replace: false,
        max_restarts: 0,
        key_seed: seed,
        sched_seed: 0,
            opts_per_task: false,
            stack_kib: vec![],
            handler_shared: false,
        tasks: vec![t],
    };
    let rf = match stratum.as_str() {
        "solo" => {
            let mods = workload::discover(&workload_dir);
            let tasks = workload::tasks(&mods);
            let Some(t) = tasks.get(run as usize) else { return 2 };
            ReplayFile { property: "C08".into(), note: "T: the process did not survive this module run alone".into(), plan: single(t.clone(), "solo"), script: None, expected: None, detail: vec![] }
        }
        "solo2" => {
            let key = arg(args, "--task-key").expect("--task-key");
            let mods = workload::discover(&workload_dir);
            let tasks = workload::tasks(&mods);
            let Some(t) = tasks.iter().find(|t| t.key() == key) else { return 2 };
            ReplayFile {
                property: "C08".into(),
                note: "D (fresh-process clause): the result of this module run alone depends on the process's hash keys".into(),
                plan: single(t.clone(), "solo2"),
                script: None,
                expected: Some(Expected { clause: "D".into(), task: key, component: "fresh-process".into(), fingerprint: "".into() }),
                detail: vec![],
            }
        }
        s => {
            let ld = child::load(&workload_dir, rng::mix(seed), false, Duration::from_secs(60));
            let world = strata::World::build(seed, thorough, ld.tasks, ld.info);
            let random_runs: u64 = arg(args, "--random-runs").and_then(|s| s.parse().ok()).unwrap_or(u64::MAX);
            if run >= world.len(s, random_runs) {
                return 2;
            }
            let (plan, script) = world.plan(s, run);
            ReplayFile {
                property: "C08".into(),
                note: format!("T: the process did not survive (or did not finish) {s} run {run}; decisions are re-drawn from the plan's PRNG"),
                plan,
                script: if script.is_empty() { None } else { Some(encode_script(&script)) },
                expected: None,
                detail: vec![],
            }
        }
    };
    std::fs::write(&out, serde_json::to_string_pretty(&rf).unwrap()).expect("write replay");
    0
}

fn replay_inner(path: &str) -> i32 {
    let text = match std::fs::read_to_string(path) {
        Ok(t) => t,
        Err(e) => {
            println!("cannot read {path}: {e}");
            return 2;
        }
    };
    let rf: ReplayFile = match serde_json::from_str(&text) {
        Ok(r) => r,
        Err(e) => {
            println!("cannot parse {path}: {e}");
            return 2;
        }
    };
    println!("replaying {} — {}", path, rf.note);
    if rf.plan.stratum == "solo2" {
        let t = &rf.plan.tasks[0];
        let mut distinct = std::collections::BTreeSet::new();
        for k in 0..16u64 {
            let r = oracle::References::new(rng::mix(rf.plan.key_seed ^ (k << 8)), Duration::from_secs(60)).get(t);
            distinct.insert(format!("{:?}", r.outcome));
        }
        if distinct.len() > 1 {
            println!("REPRODUCED: {} run alone under 16 different hash-key seeds gives {} distinct results", t.key(), distinct.len());
            return 1;
        }
        println!("not reproduced: 16 hash-key seeds, one result");
        return 0;
    }
    // a replay that has to show that an execution never finishes (or dies) does not need the full budget
    // to do so: a real execution of a short plan takes milliseconds
    let dies = rf.expected.as_ref().map(|e| e.component == "process-death").unwrap_or(rf.expected.is_none());
    let budget = if dies && rf.plan.tasks.len() <= 16 { 10 } else { 60 };
    let mut refs = oracle::References::new(rf.plan.key_seed, Duration::from_secs(budget));
    let script = match &rf.script {
        Some(s) => match decode_script(s) {
            Some(s) => Some(s),
            None => {
                println!("bad script in {path}");
                return 2;
            }
        },
        None => None,
    };
    let res = oracle::run_forked(&rf.plan, script.as_deref(), &mut refs);
    match &res {
        Ok(s) => println!("executed {} tasks, {} decisions, event-log fingerprint {:016x}", rf.plan.tasks.len(), s.trace.len(), s.log_hash),
        Err(d) => println!("the forked host process did not survive: {d}"),
    }
    let violations = oracle::violations_of(&rf.plan, &mut refs, &res);
    let hit = match &rf.expected {
        Some(e) => violations.iter().find(|v| v.matches_expected(e)),
        None => violations.first(),
    };
    match hit {
        Some(v) => {
            println!("REPRODUCED: clause {} task {} component {} fingerprint {}", v.clause, v.task_key, v.component, v.fingerprint);
            for d in &v.detail {
                println!("    {d}");
            }
            1
        }
        None => {
            if let Some(e) = &rf.expected {
                println!("not reproduced: expected clause {} task {} component {} fingerprint {}", e.clause, e.task, e.component, e.fingerprint);
            }
            for v in &violations {
                println!("    (other violation seen: clause {} task {} component {} fingerprint {})", v.clause, v.task_key, v.component, v.fingerprint);
            }
            0
        }
    }
}
