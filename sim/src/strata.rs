//! The four strata of executions (DESIGN.md §3.7). Every stratum is a deterministic list
//! of (plan, script) pairs indexed by a run number; a child process takes the indices
//! `i % children == child`.

use crate::pipeline::Noise;
use crate::plan::*;
use crate::rng::{mix, Rng};
use std::collections::{BTreeMap, BTreeSet};

pub struct TaskInfo {
    pub ok: bool, // solo returned
    pub steps: u32,
    pub sites: Vec<String>,
    pub ndiags: u32,
}

pub struct World {
    pub seed: u64,
    pub thorough: bool,
    pub tasks: Vec<PlanTask>,
    pub info: Vec<TaskInfo>,
    /// indices of tasks usable in simulated runs (solo returned)
    pub pool: Vec<usize>,
    /// site -> tasks of the pool whose solo run hits it (fewest steps first)
    pub by_site: BTreeMap<String, Vec<usize>>,
    /// "interesting" sites: where process-shared state is touched
    pub crash_list: Vec<(usize, u32)>,
    pub ecrash_list: Vec<(usize, u32)>,
    pub preempt_list: Vec<(usize, usize, u32)>,
    pub probes: Vec<usize>,
    pub long_runs: u64,
    /// (a, b): b compiled right after a on one worker; a and b from the same workload directory
    pub siblings_list: Vec<(usize, usize)>,
    /// (a, b, k): the same module under two option sets, finely interleaved on two workers, k-th seed
    pub duel_list: Vec<(usize, usize, u32)>,
    /// number of runs of the `gen` stratum (freshly generated modules, see gen.rs)
    pub gen_runs: u64,
    /// task -> the other modules of its workload directory (own option set, comments on), for the crash sweep
    pub dir_mates: BTreeMap<usize, Vec<usize>>,
}

/// Steps of a solo trace worth a systematic fault/preemption: the first two and the last
/// occurrence of every site (quick), or every step (thorough).
pub fn chosen_steps(sites: &[String], all: bool) -> Vec<u32> {
    if all {
        return (1..=sites.len() as u32).collect();
    }
    let mut seen: BTreeMap<&str, u32> = BTreeMap::new();
    let mut last: BTreeMap<&str, u32> = BTreeMap::new();
    let mut out = BTreeSet::new();
    for (i, s) in sites.iter().enumerate() {
        let n = seen.entry(s.as_str()).or_insert(0);
        if *n < 2 {
            out.insert(i as u32 + 1);
        }
        *n += 1;
        last.insert(s.as_str(), i as u32 + 1);
    }
    out.extend(last.values().copied());
    out.into_iter().collect()
}

impl World {
    pub fn build(seed: u64, thorough: bool, tasks: Vec<PlanTask>, info: Vec<TaskInfo>) -> World {
        let pool: Vec<usize> = (0..tasks.len()).filter(|i| info[*i].ok).collect();
        let mut by_site: BTreeMap<String, Vec<usize>> = BTreeMap::new();
        for &i in &pool {
            let set: BTreeSet<String> = info[i].sites.iter().cloned().collect();
            for s in set {
                by_site.entry(s).or_default().push(i);
            }
        }
        for v in by_site.values_mut() {
            v.sort_by_key(|i| (info[*i].steps, *i));
        }
        // sweep pool: quick = comments on, option set own (plus all for the fixtures and workload/state); thorough = everything
        let sweep: Vec<usize> = pool
            .iter()
            .copied()
            .filter(|&i| {
                thorough
                    || (tasks[i].comments
                        && (tasks[i].opt_name == "own" || (tasks[i].opt_name == "all" && !tasks[i].name.starts_with("w2/grid/") && !tasks[i].script)))
            })
            .collect();
        // probes: a few feature-rich modules used as the bystander `u`
        let mut probes: Vec<usize> = vec![];
        for site in ["slot_ident", "c.add_pure_comment", "diag", "transform_on_helper", "iife_ident", "resolve_directive"] {
            if let Some(v) = by_site.get(site) {
                if let Some(&i) = v.iter().find(|i| tasks[**i].comments && !probes.contains(*i)) {
                    probes.push(i);
                }
            }
        }
        if probes.is_empty() {
            probes.extend(pool.iter().take(2).copied());
        }
        let mut crash_list = vec![];
        let mut ecrash_list = vec![];
        for &i in &sweep {
            // (every step only for tasks of ordinary size: the handful of modules that run for 10^5 steps
            // before the pass gives up on their types would otherwise be most of the sweep)
            for k in chosen_steps(&info[i].sites, thorough && info[i].steps < 1000) {
                crash_list.push((i, k));
            }
            for j in 1..=info[i].ndiags {
                ecrash_list.push((i, j));
            }
        }
        // representatives per site
        let per_site = if thorough { 3 } else { 1 };
        let mut reps: Vec<usize> = vec![];
        for (_site, v) in &by_site {
            let mut n = 0;
            for &i in v {
                if !tasks[i].comments {
                    continue;
                }
                if !reps.contains(&i) {
                    reps.push(i);
                }
                n += 1;
                if n >= per_site {
                    break;
                }
            }
        }
        reps.sort();
        let mut preempt_list = vec![];
        for &a in &reps {
            let steps = chosen_steps(&info[a].sites, thorough && info[a].steps < 400);
            let mut bs: Vec<usize> = reps.clone();
            // the same module under its other option sets / comments modes
            // (the hand-picked option sets only; the covering-array sets c00.. are exercised by the seeded search)
            for &i in &pool {
                if tasks[i].name == tasks[a].name && i != a && !bs.contains(&i) && !tasks[i].opt_name.starts_with('c') {
                    bs.push(i);
                }
            }
            for &b in &bs {
                for &k in &steps {
                    preempt_list.push((a, b, k));
                }
            }
        }
        // per site, the module that hits it most often ("heavy"): state that needs two or more uses of a
        // site by one task before it shows (a second generated position, a second temporary, ...) is not
        // reached by the smallest representative. Heavy A against {heavy, smallest} B of the same site, and
        // smallest A against heavy B.
        let mut seen_pairs: BTreeSet<(usize, usize)> = BTreeSet::new();
        for (site, v) in &by_site {
            if site.starts_with("phase.") {
                continue;
            }
            let count = |i: usize| info[i].sites.iter().filter(|s| *s == site).count();
            let cands: Vec<usize> = v.iter().copied().filter(|i| tasks[*i].comments && !tasks[*i].opt_name.starts_with('c') && info[*i].steps < 600).collect();
            let Some(&heavy) = cands.iter().max_by_key(|i| (count(**i), std::cmp::Reverse(**i))) else { continue };
            let Some(&small) = cands.first() else { continue };
            if count(heavy) < 2 {
                continue;
            }
            for (a, b) in [(heavy, heavy), (heavy, small), (small, heavy)] {
                if reps.contains(&a) && reps.contains(&b) || !seen_pairs.insert((a, b)) {
                    continue;
                }
                for k in chosen_steps(&info[a].sites, false) {
                    preempt_list.push((a, b, k));
                }
            }
        }
        // (instrumented builds only: the sites `sync.*` exist only there) a task parked in front of EACH of its lock /
        // once / atomic operations while one of the state-filling modules (grid/many) runs to completion on the
        // other worker: a table that is emptied or wraps while somebody sits between two of its critical sections
        {
            let many: Vec<usize> = pool.iter().copied().filter(|i| tasks[*i].name.starts_with("w2/grid/many/") && tasks[*i].opt_name == "own" && tasks[*i].comments && !tasks[*i].script && info[*i].steps < 490_000).collect();
            let mut seen: BTreeSet<(usize, usize, u32)> = BTreeSet::new();
            for (site, v) in &by_site {
                if !site.starts_with("sync.") {
                    continue;
                }
                let count = |i: usize| info[i].sites.iter().filter(|s| *s == site).count();
                let cands: Vec<usize> = v.iter().copied().filter(|i| tasks[*i].comments && !tasks[*i].opt_name.starts_with('c') && info[*i].steps < 600).collect();
                let Some(&heavy) = cands.iter().max_by_key(|i| (count(**i), std::cmp::Reverse(**i))) else { continue };
                // the module that uses the site most, and the modules that repeat the same few things (a memo is HIT on repeats)
                let mut parked: Vec<usize> = vec![heavy];
                parked.extend(cands.iter().copied().filter(|i| tasks[*i].name.starts_with("w2/grid/multi/repeats") && tasks[*i].opt_name == "own"));
                for &a in &parked {
                    for &b in &many {
                        for (k, s) in info[a].sites.iter().enumerate() {
                            if s.starts_with("sync.") && seen.insert((a, b, k as u32 + 1)) && (thorough || seen.len() <= 12_000) {
                                preempt_list.push((a, b, k as u32 + 1));
                            }
                        }
                    }
                }
            }
        }
        let long_runs = if thorough { 256 } else { 32 };
        // siblings: modules of one workload directory hold the same kind of content (the same tag names,
        // attribute names, type names, in other arrangements) - which is where state keyed on too little
        // bites. Every module A (own option set, comments on) is followed by up to `partners` others of its
        // directory, chosen by a seeded shuffle; thorough: by all of them.
        let mut dirs: BTreeMap<String, Vec<usize>> = BTreeMap::new();
        for &i in &pool {
            if tasks[i].opt_name == "own" && tasks[i].comments && !tasks[i].script {
                let dir = tasks[i].name.rsplit_once('/').map(|x| x.0.to_string()).unwrap_or_default();
                // the repository's fixtures are one directory per fixture: group them by their parent
                let dir = if dir.starts_with("fixture/") { dir.rsplit_once('/').map(|x| x.0.to_string()).unwrap_or(dir) } else { dir };
                dirs.entry(dir).or_default().push(i);
            }
        }
        let mut dir_mates: BTreeMap<usize, Vec<usize>> = BTreeMap::new();
        for (_d, v) in &dirs {
            if v.len() > 1 {
                for &a in v {
                    dir_mates.insert(a, v.iter().copied().filter(|b| *b != a).collect());
                }
            }
        }
        let partners = if thorough { usize::MAX } else { 10 };
        let mut siblings_list = vec![];
        let mut rng = Rng::new(mix(seed ^ 0x5349_424c));
        for (_d, v) in &dirs {
            for &a in v {
                let mut others: Vec<usize> = v.iter().copied().filter(|b| *b != a).collect();
                for i in (1..others.len()).rev() {
                    others.swap(i, rng.below(i + 1));
                }
                for &b in others.iter().take(partners) {
                    siblings_list.push((a, b));
                }
            }
        }
        // duels: one module under two of its option sets at once, two workers, control changing hands
        // at random at (nearly) every yield, several seeds per pair. This is where a cache keyed on too
        // little, or a check-then-act window between two critical sections, meets the one other
        // transform that can hurt it: the same names under other options, a few steps ahead or behind.
        let duel_sets: &[&str] = &["own", "default", "all", "inverse", "c01", "c03", "c05"];
        let seeds_per_pair: u32 = if thorough { 24 } else { 6 };
        let mut duel_modules: BTreeSet<String> = reps.iter().map(|i| tasks[*i].name.clone()).collect();
        for &i in &pool {
            if tasks[i].name.starts_with("w2/state/") || tasks[i].name.starts_with("w2/grid/multi/") {
                duel_modules.insert(tasks[i].name.clone());
            }
        }
        let mut duel_list = vec![];
        for name in &duel_modules {
            let variants: Vec<usize> = pool.iter().copied().filter(|i| &tasks[*i].name == name && tasks[*i].comments && !tasks[*i].script && duel_sets.contains(&tasks[*i].opt_name.as_str())).collect();
            for (x, &a) in variants.iter().enumerate() {
                for &b in variants.iter().skip(x + 1) {
                    if info[a].steps > 3000 || info[b].steps > 3000 {
                        continue;
                    }
                    for k in 0..seeds_per_pair {
                        duel_list.push((a, b, k));
                    }
                }
            }
        }
        let gen_runs = if thorough { 600_000 } else { 6_000 };
        World { seed, thorough, tasks, info, pool, by_site, crash_list, ecrash_list, preempt_list, probes, long_runs, siblings_list, duel_list, gen_runs, dir_mates }
    }

    fn base(&self, stratum: &str, run: u64) -> Plan {
        Plan {
            seed: self.seed,
            stratum: stratum.to_string(),
            run,
            workers: 1,
            globals: GlobalsMode::Shared,
            store: StoreMode::Shared,
            strategy: Strategy::Script,
            boundary_fault_pct: 0,
            allow_replace: false,
            max_restarts: 0,
            key_seed: mix(self.seed ^ mix(run ^ fxs(stratum))),
            sched_seed: mix(self.seed.wrapping_add(0xABCD) ^ mix(run ^ fxs(stratum))),
            opts_per_task: false,
            stack_kib: vec![],
            handler_shared: false,
            tasks: vec![],
        }
    }

    pub fn len(&self, stratum: &str, random_runs: u64) -> u64 {
        match stratum {
            "crash" => (self.crash_list.len() + self.ecrash_list.len()) as u64,
            "preempt" => self.preempt_list.len() as u64,
            "random" => random_runs,
            "long" => self.long_runs,
            "siblings" => self.siblings_list.len() as u64,
            "duel" => self.duel_list.len() as u64,
            "gen" => self.gen_runs,
            _ => 0,
        }
    }

    /// stratum 2: `[t crashed at k ; t ; u]` on one worker with shared Globals and store
    pub fn crash_plan(&self, run: u64) -> (Plan, Vec<Action>) {
        let mut p = self.base("crash", run);
        let n = self.crash_list.len() as u64;
        let (i, crash, ecrash) = if run < n {
            let (i, k) = self.crash_list[run as usize];
            (i, Some(k), None)
        } else {
            let (i, j) = self.ecrash_list[(run - n) as usize];
            (i, None, Some(j))
        };
        let mut t0 = self.tasks[i].clone();
        t0.crash_at = crash;
        t0.emitter_crash_at = ecrash;
        let mut u = self.probes[(run as usize) % self.probes.len()];
        if self.tasks[u].name == self.tasks[i].name {
            u = self.probes[(run as usize + 1) % self.probes.len()];
        }
        p.tasks = vec![t0, self.tasks[i].clone(), self.tasks[u].clone()];
        // every third run: `[t crashed at k ; a sibling of t ; t]` - what the aborted transform left behind meets
        // a module that uses the same names for other things before anything completes normally on the worker
        if run % 3 == 1 {
            let own = self.tasks.iter().position(|x| x.name == self.tasks[i].name && x.opt_name == "own" && x.comments && !x.script);
            if let Some(mates) = own.and_then(|o| self.dir_mates.get(&o)) {
                let b = mates[(mix(self.seed ^ run) % mates.len() as u64) as usize];
                p.tasks = vec![p.tasks[0].clone(), self.tasks[b].clone(), self.tasks[i].clone()];
            }
        }
        p.opts_per_task = run % 2 == 1;
        // mostly the native-host topology (everything shared); every fourth run the test-harness one
        // (fresh Globals and SourceMap per file: equal absolute positions, equal mark numbers), every
        // other fourth a private comments store per file
        match run % 4 {
            2 => p.globals = GlobalsMode::PerTask,
            3 => p.store = StoreMode::PerTask,
            _ => {}
        }
        p.handler_shared = run % 8 == 2 || run % 8 == 5;
        (p, vec![])
    }

    /// stratum 3: run A to step k, park it, run B to completion on a second worker, resume A
    pub fn preempt_plan(&self, run: u64) -> (Plan, Vec<Action>) {
        let mut p = self.base("preempt", run);
        let (a, b, k) = self.preempt_list[run as usize];
        p.workers = 2;
        p.opts_per_task = run % 2 == 1;
        match run % 4 {
            2 => p.globals = GlobalsMode::PerTask,
            3 => p.store = StoreMode::PerTask,
            _ => {}
        }
        p.tasks = vec![self.tasks[a].clone(), self.tasks[b].clone()];
        let mut script = vec![Action::Dispatch(0)];
        for _ in 1..k {
            script.push(Action::Resume(0));
        }
        script.push(Action::Dispatch(1));
        (p, script)
    }

    /// stratum 4: seeded search over schedules, topologies, faults and noise
    pub fn random_plan(&self, run: u64) -> (Plan, Vec<Action>) {
        let mut p = self.base("random", run);
        let mut rng = Rng::new(mix(self.seed ^ mix(run.wrapping_mul(0x9E37_79B9)) ^ 0x5157_4152_4d21));
        p.workers = 1 + rng.below(4) as u8;
        let nt = 2 + rng.below(7);
        p.globals = match rng.below(20) {
            0..=11 => GlobalsMode::Shared,
            12..=14 => GlobalsMode::PerTask,
            _ => GlobalsMode::Epochs,
        };
        p.store = if rng.chance(50) { StoreMode::Shared } else { StoreMode::PerTask };
        p.opts_per_task = rng.chance(50);
        p.handler_shared = rng.chance(25);
        if rng.chance(50) {
            p.stack_kib = (0..p.workers).map(|_| [2048u32, 8192, 65536][rng.below(3)]).collect();
        }
        let fault_free = rng.chance(30);
        // swarm: which perturbations are enabled in this run
        let en_crash = !fault_free && rng.chance(70);
        let en_ecrash = !fault_free && rng.chance(40);
        let en_replace = !fault_free && rng.chance(40);
        let en_restart = !fault_free && p.globals == GlobalsMode::Epochs;
        let en_dup = rng.chance(40);
        let en_marks = rng.chance(50);
        let en_pad = rng.chance(40);
        let en_atoms = rng.chance(30);
        let en_dummy = rng.chance(40);
        let en_ymarks = rng.chance(30);
        let en_heap = rng.chance(30);
        p.allow_replace = en_replace;
        p.max_restarts = if en_restart { 1 + rng.below(2) as u8 } else { 0 };
        p.boundary_fault_pct = if en_replace || en_restart { 10 + rng.below(25) as u32 } else { 0 };
        // tasks: half of the runs draw from one feature tag, the other half uniformly
        let sites: Vec<&String> = self.by_site.keys().collect();
        let tag_pool: Option<&Vec<usize>> = if rng.chance(50) && !sites.is_empty() { self.by_site.get(sites[rng.below(sites.len())]) } else { None };
        let mut crashes = 0;
        for n in 0..nt {
            let i = if en_dup && n > 0 && rng.chance(35) {
                // duplicate: the same (module, options, comments) again
                let prev = &p.tasks[rng.below(p.tasks.len())];
                self.tasks.iter().position(|t| t.name == prev.name && t.opt_name == prev.opt_name && t.comments == prev.comments).unwrap()
            } else if en_dup && n > 0 && rng.chance(20) {
                // the same module under another option set / comments mode
                let prev = p.tasks[rng.below(p.tasks.len())].name.clone();
                let same: Vec<usize> = self.pool.iter().copied().filter(|i| self.tasks[*i].name == prev).collect();
                same[rng.below(same.len())]
            } else {
                match tag_pool {
                    Some(v) => v[rng.below(v.len())],
                    None => self.pool[rng.below(self.pool.len())],
                }
            };
            let mut t = self.tasks[i].clone();
            // at most one crash-type fault per ~3 tasks
            if en_crash && crashes * 3 <= n && rng.chance(30) {
                t.crash_at = Some(1 + rng.below(self.info[i].steps as usize + 1) as u32);
                crashes += 1;
            } else if en_ecrash && self.info[i].ndiags > 0 && crashes * 3 <= n && rng.chance(50) {
                t.emitter_crash_at = Some(1 + rng.below(self.info[i].ndiags as usize) as u32);
                crashes += 1;
            }
            t.noise = Noise {
                marks_before: if en_marks { rng.below(65) as u8 } else { 0 },
                pad_files: if en_pad { rng.below(4) as u8 } else { 0 },
                atoms: if en_atoms { rng.below(9) as u8 } else { 0 },
                dummy_cnt: if en_dummy { rng.below(6) as u8 } else { 0 },
                yield_marks: if en_ymarks { rng.below(3) as u8 } else { 0 },
                heap: if en_heap { rng.below(9) as u8 } else { 0 },
                seed: rng.next() % 100_000,
            };
            p.tasks.push(t);
        }
        p.strategy = if rng.chance(40) {
            let d = 1 + rng.below(3);
            let est: u64 = p.tasks.iter().map(|t| self.info[self.index_of(t)].steps as u64).sum::<u64>().max(4);
            let mut pr: Vec<u32> = (0..p.tasks.len() as u32).collect();
            for i in (1..pr.len()).rev() {
                pr.swap(i, rng.below(i + 1));
            }
            Strategy::Pct { priorities: pr, change_points: (0..d).map(|_| 1 + rng.next() % est).collect() }
        } else {
            Strategy::Random { stay: [0, 50, 80, 90, 95, 98, 99][rng.below(7)] }
        };
        (p, vec![])
    }

    /// stratum 5: one long-lived process — hundreds of files, one after another, on one or two
    /// reused worker threads (what a build tool's worker does), a sparse sprinkling of crashes in
    /// every other run. Exposes dependence on process / thread history that short runs are too
    /// short for.
    pub fn long_plan(&self, run: u64) -> (Plan, Vec<Action>) {
        let mut p = self.base("long", run);
        let mut rng = Rng::new(mix(self.seed ^ mix(run.wrapping_mul(0x51_7C_C1_B7)) ^ 0x4c4f_4e47));
        p.workers = 1 + (run % 2) as u8;
        p.globals = if run % 3 == 0 { GlobalsMode::PerTask } else { GlobalsMode::Shared };
        p.store = if run % 4 < 2 { StoreMode::Shared } else { StoreMode::PerTask };
        p.opts_per_task = run % 8 >= 4;
        p.handler_shared = run % 5 == 2;
        if run % 16 >= 8 {
            p.stack_kib = vec![2048, 8192];
        }
        // every fourth long run is a CONFIGURATION CHURN (after S67): a handful of small modules with custom-element
        // candidates, compiled 600 (thorough: 1500) times under as many distinct pattern lists - every other one
        // matching `x-` tags - so that whatever a process keeps per configuration is pushed past any capacity
        if run % 4 == 3 {
            let base: Vec<usize> = self
                .pool
                .iter()
                .copied()
                .filter(|i| {
                    let t = &self.tasks[*i];
                    t.opt_name == "own" && t.comments && !t.script && (t.name.starts_with("w2/state/custom-elements") || t.name.starts_with("w2/grid/patterns-split/") || t.name.starts_with("w2/grid/patterns-variants/"))
                })
                .collect();
            if !base.is_empty() {
                let n = if self.thorough { 1500 } else { 600 };
                for i in 0..n {
                    let mut t = self.tasks[base[rng.below(base.len())]].clone();
                    let k = mix(self.seed ^ run ^ ((i as u64) << 20)) % 1_000_000;
                    t.opt_name = format!("churn{i}");
                    t.options = if i % 2 == 0 { format!("{{\"optimize\":true,\"customElementPatterns\":[\"^x-\",\"^zz{k}-\"]}}") } else { format!("{{\"optimize\":true,\"customElementPatterns\":[\"^zz{k}-\"]}}") };
                    p.tasks.push(t);
                }
                p.strategy = if p.workers == 1 { Strategy::Script } else { Strategy::Random { stay: 97 } };
                return (p, vec![]);
            }
        }
        let n = if self.thorough { self.pool.len().min(1500) } else { self.pool.len().min(400) };
        let with_crashes = run % 2 == 1;
        // a seeded permutation prefix of the pool
        let mut idx: Vec<usize> = self.pool.clone();
        for i in 0..n.min(idx.len()) {
            let j = i + rng.below(idx.len() - i);
            idx.swap(i, j);
        }
        for &i in idx.iter().take(n) {
            let mut t = self.tasks[i].clone();
            if with_crashes && rng.chance(4) {
                t.crash_at = Some(1 + rng.below(self.info[i].steps as usize + 1) as u32);
            }
            p.tasks.push(t);
        }
        p.strategy = if p.workers == 1 { Strategy::Script } else { Strategy::Random { stay: 97 } };
        (p, vec![])
    }

    /// stratum 6: A, then B, then A again, one after another on one worker - both of one workload directory
    pub fn siblings_plan(&self, run: u64) -> (Plan, Vec<Action>) {
        let mut p = self.base("siblings", run);
        let (a, b) = self.siblings_list[run as usize];
        p.opts_per_task = run % 2 == 0;
        match run % 4 {
            1 => p.globals = GlobalsMode::PerTask,
            3 => p.store = StoreMode::PerTask,
            _ => {}
        }
        p.handler_shared = run % 8 == 1 || run % 8 == 6;
        p.tasks = vec![self.tasks[a].clone(), self.tasks[b].clone(), self.tasks[a].clone()];
        (p, vec![])
    }

    /// stratum 7: the same module under two option sets, both in flight at once
    pub fn duel_plan(&self, run: u64) -> (Plan, Vec<Action>) {
        let mut p = self.base("duel", run);
        let (a, b, k) = self.duel_list[run as usize];
        p.workers = 2;
        p.opts_per_task = k % 2 == 1;
        if k % 3 == 2 {
            p.globals = GlobalsMode::PerTask;
        }
        // either order of dispatch
        p.tasks = if k % 2 == 0 { vec![self.tasks[a].clone(), self.tasks[b].clone()] } else { vec![self.tasks[b].clone(), self.tasks[a].clone()] };
        p.strategy = Strategy::Random { stay: [0, 30, 50, 70, 85, 20][(k % 6) as usize] };
        // every sixth duel starts with one of the state-filling modules (grid/many: more distinct names than a
        // bounded table holds) run to completion on worker 0: whatever only happens once a process-wide table
        // is full happens to the two duellists
        if k % 6 == 5 {
            let heavy: Vec<usize> = self.pool.iter().copied().filter(|i| self.tasks[*i].name.starts_with("w2/grid/many/") && self.tasks[*i].opt_name == "own" && self.tasks[*i].comments && !self.tasks[*i].script).collect();
            if !heavy.is_empty() {
                let h = heavy[(run / 6) as usize % heavy.len()];
                p.tasks.insert(0, self.tasks[h].clone());
                let mut script = vec![Action::Dispatch(0)];
                script.extend(std::iter::repeat(Action::Resume(0)).take(self.info[h].steps as usize));
                return (p, script);
            }
        }
        (p, vec![])
    }

    /// stratum 8: freshly generated modules (gen.rs) under generated option sets, next to each other and
    /// next to bystanders from the fixed workload, on a randomly drawn host. The plan that comes out of
    /// here is raw: the child computes the solo references of the generated tasks, drops what does not
    /// parse or does not return alone (reporting the latter), and then plants the faults (`finish_gen`).
    pub fn gen_plan(&self, run: u64) -> (Plan, Vec<Action>) {
        let mut p = self.base("gen", run);
        let mut rng = Rng::new(mix(self.seed ^ mix(run.wrapping_mul(0x2545_F491_4F6C_DD1D)) ^ 0x4745_4e21));
        p.workers = 1 + rng.below(3) as u8;
        p.globals = match rng.below(20) {
            0..=11 => GlobalsMode::Shared,
            12..=16 => GlobalsMode::PerTask,
            _ => GlobalsMode::Epochs,
        };
        p.store = if rng.chance(50) { StoreMode::Shared } else { StoreMode::PerTask };
        p.opts_per_task = rng.chance(50);
        p.handler_shared = rng.chance(15);
        if rng.chance(30) {
            p.stack_kib = (0..p.workers).map(|_| [2048u32, 8192, 65536][rng.below(3)]).collect();
        }
        let fault_free = rng.chance(40);
        p.allow_replace = !fault_free && rng.chance(30);
        p.max_restarts = if !fault_free && p.globals == GlobalsMode::Epochs { 1 } else { 0 };
        p.boundary_fault_pct = if p.allow_replace || p.max_restarts > 0 { 10 + rng.below(25) as u32 } else { 0 };
        let en_noise = rng.chance(40);
        let ng = 1 + rng.below(3);
        for k in 0..ng {
            let m = crate::gen::module(&mut rng);
            let modular = m.src.lines().any(|l| {
                let t = l.trim_start();
                t.starts_with("import ") || t.starts_with("export ")
            });
            let mut t = PlanTask {
                name: format!("gen/{}/{}.{}", self.seed, run, k),
                opt_name: "g0".into(),
                src: m.src,
                ts: m.ts,
                options: m.options,
                comments: m.comments,
                script: !modular && rng.chance(30),
                crash_at: None,
                emitter_crash_at: None,
                noise: Default::default(),
            };
            if en_noise {
                t.noise = Noise { marks_before: rng.below(65) as u8, pad_files: rng.below(4) as u8, atoms: rng.below(9) as u8, dummy_cnt: rng.below(6) as u8, yield_marks: rng.below(3) as u8, heap: rng.below(9) as u8, seed: rng.next() % 100_000 };
            }
            p.tasks.push(t.clone());
            // the same text again: repeated, under another generated option set, or without / with comments
            match rng.below(6) {
                0 => p.tasks.push(t),
                1 | 2 => {
                    t.opt_name = "g1".into();
                    t.options = crate::gen::options(&mut rng);
                    p.tasks.push(t);
                }
                _ => {}
            }
        }
        // a third of the runs: `[A crashed at a step to be chosen ; B ; A]` on one worker, A and B generated from the
        // same small vocabulary of names (what an aborted transform leaves behind meets the same names bound to
        // other things before anything completes normally on that worker)
        if rng.chance(33) {
            let a = p.tasks[0].clone();
            let m = crate::gen::module_like(&mut rng, a.ts);
            let b = PlanTask { name: format!("gen/{}/{}.b", self.seed, run), opt_name: "g0".into(), src: m.src, ts: m.ts, options: if rng.chance(50) { a.options.clone() } else { m.options }, comments: a.comments, script: false, crash_at: None, emitter_crash_at: None, noise: Default::default() };
            let mut a0 = a.clone();
            a0.crash_at = Some(0); // planted by finish_gen
            p.tasks = vec![a0, b, a];
            p.workers = 1;
            p.strategy = Strategy::Script;
            p.allow_replace = false;
            p.max_restarts = 0;
            p.boundary_fault_pct = 0;
            p.globals = if rng.chance(50) { GlobalsMode::PerTask } else { GlobalsMode::Shared };
            p.stack_kib = vec![];
            for t in p.tasks.iter_mut() {
                t.noise = Default::default();
            }
            return (p, vec![]);
        }
        // bystanders from the fixed workload
        for _ in 0..rng.below(3) {
            if !self.pool.is_empty() {
                p.tasks.push(self.tasks[self.pool[rng.below(self.pool.len())]].clone());
            }
        }
        for i in (1..p.tasks.len()).rev() {
            p.tasks.swap(i, rng.below(i + 1));
        }
        p.strategy = if p.workers == 1 {
            Strategy::Script
        } else if rng.chance(30) {
            let mut pr: Vec<u32> = (0..p.tasks.len() as u32).collect();
            for i in (1..pr.len()).rev() {
                pr.swap(i, rng.below(i + 1));
            }
            Strategy::Pct { priorities: pr, change_points: (0..1 + rng.below(3)).map(|_| 1 + rng.next() % 600).collect() }
        } else {
            Strategy::Random { stay: [0, 50, 80, 90, 95, 98][rng.below(6)] }
        };
        (p, vec![])
    }

    /// Second half of `gen_plan`: `steps[i]` / `ndiags[i]` are those of task i's solo run.
    pub fn finish_gen(p: &mut Plan, steps: &[u32], ndiags: &[u32]) {
        let mut rng = Rng::new(mix(p.sched_seed ^ 0x6661_756c_7473));
        if let Some(n) = p.tasks.iter().position(|t| t.crash_at == Some(0)) {
            // crash-pair shape: a crash somewhere in A (emitter crashes for A's diagnostics half of the time)
            if ndiags[n] > 0 && rng.chance(40) {
                p.tasks[n].crash_at = None;
                p.tasks[n].emitter_crash_at = Some(1 + rng.below(ndiags[n] as usize) as u32);
            } else {
                p.tasks[n].crash_at = Some(1 + rng.below(steps[n].max(1) as usize) as u32);
            }
            return;
        }
        if p.boundary_fault_pct == 0 && !p.allow_replace && rng.chance(40) {
            return; // fault-free
        }
        let mut crashes = 0;
        for (n, t) in p.tasks.iter_mut().enumerate() {
            if crashes * 3 <= n && rng.chance(25) {
                t.crash_at = Some(1 + rng.below(steps[n] as usize + 1) as u32);
                crashes += 1;
            } else if ndiags[n] > 0 && crashes * 3 <= n && rng.chance(30) {
                t.emitter_crash_at = Some(1 + rng.below(ndiags[n] as usize) as u32);
                crashes += 1;
            }
        }
    }

    fn index_of(&self, t: &PlanTask) -> usize {
        self.tasks.iter().position(|x| x.name == t.name && x.opt_name == t.opt_name && x.comments == t.comments).expect("task from the workload")
    }

    pub fn plan(&self, stratum: &str, run: u64) -> (Plan, Vec<Action>) {
        match stratum {
            "crash" => self.crash_plan(run),
            "preempt" => self.preempt_plan(run),
            "random" => self.random_plan(run),
            "long" => self.long_plan(run),
            "siblings" => self.siblings_plan(run),
            "duel" => self.duel_plan(run),
            "gen" => self.gen_plan(run),
            _ => panic!("unknown stratum {stratum}"),
        }
    }
}

fn fxs(s: &str) -> u64 {
    crate::rng::fnv_str(s)
}
