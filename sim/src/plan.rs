//! A `Plan` is everything one simulated execution consists of except the schedule:
//! tasks (text embedded), topology, faults, noise. Together with a decision script it is
//! a replay file; without one, the decisions come from the PRNG named in `strategy`.

use crate::pipeline::Noise;
use serde::{Deserialize, Serialize};

#[derive(Clone, Debug, Serialize, Deserialize, PartialEq, Eq)]
pub struct PlanTask {
    /// workload name, e.g. "fixture/v-html/input.jsx" or "w2/slots/many.jsx"
    pub name: String,
    /// option-set name (informational; `options` is what is used)
    pub opt_name: String,
    pub src: String,
    pub ts: bool,
    /// JSON text handed to `serde_json::from_str::<Options>` like plugin/src/lib.rs does
    pub options: String,
    /// does the host hand the pass a comments store
    pub comments: bool,
    /// the host parses the file as a Script, not a Module (swc's `isModule: false`, or "unknown" for a
    /// file without import/export) and hands the pass a `Program::Script`
    #[serde(default, skip_serializing_if = "std::ops::Not::not")]
    pub script: bool,
    /// fault: the yield hook panics at this step (1-based) of this task
    #[serde(default, skip_serializing_if = "Option::is_none")]
    pub crash_at: Option<u32>,
    /// fault: the host's diagnostics emitter panics on this task's j-th diagnostic (1-based)
    #[serde(default, skip_serializing_if = "Option::is_none")]
    pub emitter_crash_at: Option<u32>,
    #[serde(default, skip_serializing_if = "Noise::is_zero")]
    pub noise: Noise,
}

impl PlanTask {
    pub fn key(&self) -> String {
        format!("{}|{}|{}{}", self.name, self.opt_name, if self.comments { "c" } else { "-" }, if self.script { "|script" } else { "" })
    }
    pub fn fault_planned(&self) -> bool {
        self.crash_at.is_some() || self.emitter_crash_at.is_some()
    }
}

#[derive(Clone, Copy, Debug, Serialize, Deserialize, PartialEq, Eq)]
pub enum GlobalsMode {
    /// one `Globals` (+ SourceMap) for all tasks: native host / WASM host
    Shared,
    /// a fresh `Globals` per task: test-harness style
    PerTask,
    /// shared, but `Restart` actions may replace it ("host restart"); tasks never mix epochs
    Epochs,
}

#[derive(Clone, Copy, Debug, Serialize, Deserialize, PartialEq, Eq)]
pub enum StoreMode {
    /// every task gets its own `SingleThreadedComments`
    PerTask,
    /// all tasks of one `Globals` epoch share one thread-safe store
    Shared,
}

#[derive(Clone, Debug, Serialize, Deserialize, PartialEq, Eq)]
pub enum Strategy {
    /// keep running the current task with probability `stay`%, else uniform over what is enabled
    Random { stay: u32 },
    /// PCT: fixed random priorities, `change_points` (global step numbers) demote the running task
    Pct { priorities: Vec<u32>, change_points: Vec<u64> },
    /// only the script (and the canonical default when it runs out)
    Script,
}

#[derive(Clone, Debug, Serialize, Deserialize, PartialEq, Eq)]
pub struct Plan {
    pub seed: u64,
    pub stratum: String,
    pub run: u64,
    pub workers: u8,
    pub globals: GlobalsMode,
    pub store: StoreMode,
    pub strategy: Strategy,
    /// probability (%) of a `Replace`/`Restart` action at a task boundary, 0 = never
    pub boundary_fault_pct: u32,
    pub allow_replace: bool,
    pub max_restarts: u8,
    /// seed for the hash keys of the worker threads of this run (S5)
    pub key_seed: u64,
    /// seed of the PRNG that makes this run's scheduling decisions
    pub sched_seed: u64,
    /// how the host treats the configuration: false = deserialised once per distinct JSON text and
    /// cloned into every task (one long-lived compiler instance); true = deserialised afresh for
    /// every file on the worker and dropped when the file is done (what plugin/src/lib.rs does)
    #[serde(default)]
    pub opts_per_task: bool,
    /// stack size (KiB) of the worker threads, per worker slot; missing = 65536. The stack a host
    /// thread has is the host's business (main thread, pool thread, RUST_MIN_STACK, ulimit -s).
    #[serde(default, skip_serializing_if = "Vec::is_empty")]
    pub stack_kib: Vec<u32>,
    /// the host's diagnostics `Handler`: false = one per file; true = one for all files of the run
    /// (swc's `Handler` drops a diagnostic it has already seen - same message, same span - and does
    /// not count it, so WHICH diagnostics come out is then the host's business and is not compared;
    /// the generated code still is)
    #[serde(default, skip_serializing_if = "std::ops::Not::not")]
    pub handler_shared: bool,
    pub tasks: Vec<PlanTask>,
}

/// A scheduler action. `Resume(w)`: the task parked on worker w runs to its next yield.
/// `Dispatch(w)`: the next not-yet-started task starts on idle worker w. `Replace(w)`: idle
/// worker w's OS thread is retired and a new one takes the slot. `Restart`: new `Globals` epoch.
#[derive(Clone, Copy, Debug, PartialEq, Eq, Hash, Serialize, Deserialize)]
pub enum Action {
    Resume(u8),
    Dispatch(u8),
    Replace(u8),
    Restart,
}

impl Action {
    pub fn code(&self) -> String {
        match self {
            Action::Resume(w) => format!("r{w}"),
            Action::Dispatch(w) => format!("d{w}"),
            Action::Replace(w) => format!("x{w}"),
            Action::Restart => "g".to_string(),
        }
    }
    pub fn parse(s: &str) -> Option<Action> {
        if s == "g" {
            return Some(Action::Restart);
        }
        let (k, n) = s.split_at(1);
        let w: u8 = n.parse().ok()?;
        match k {
            "r" => Some(Action::Resume(w)),
            "d" => Some(Action::Dispatch(w)),
            "x" => Some(Action::Replace(w)),
            _ => None,
        }
    }
}

/// Run-length encoded script: ["d0", "r0*17", "d1", ...]
pub fn encode_script(a: &[Action]) -> Vec<String> {
    let mut out: Vec<String> = vec![];
    let mut i = 0;
    while i < a.len() {
        let mut j = i;
        while j < a.len() && a[j] == a[i] {
            j += 1;
        }
        if j - i == 1 {
            out.push(a[i].code());
        } else {
            out.push(format!("{}*{}", a[i].code(), j - i));
        }
        i = j;
    }
    out
}

pub fn decode_script(s: &[String]) -> Option<Vec<Action>> {
    let mut out = vec![];
    for item in s {
        let (code, n) = match item.split_once('*') {
            Some((c, n)) => (c, n.parse::<usize>().ok()?),
            None => (item.as_str(), 1),
        };
        let a = Action::parse(code)?;
        for _ in 0..n {
            out.push(a);
        }
    }
    Some(out)
}

/// What a replay must end in.
#[derive(Clone, Debug, Serialize, Deserialize, PartialEq, Eq)]
pub struct Expected {
    /// "D" | "T" | "R"
    pub clause: String,
    /// task key (module|optset|comments) of the task that violated it
    pub task: String,
    /// first differing result component ("kind", "code", "sig", "diags") or the panic / budget text
    pub component: String,
    /// fingerprint of that component's simulated value
    pub fingerprint: String,
}

#[derive(Clone, Debug, Serialize, Deserialize)]
pub struct ReplayFile {
    pub property: String,
    pub note: String,
    pub plan: Plan,
    /// None: decisions are re-drawn from the PRNG (used when the run could not finish, e.g. the child died)
    pub script: Option<Vec<String>>,
    pub expected: Option<Expected>,
    /// human-readable detail of the violation when it was found (not compared on replay)
    #[serde(default)]
    pub detail: Vec<String>,
}
