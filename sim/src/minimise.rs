//! Shrinks a violating (plan, script) while the same violation class persists for the same
//! task and the same first differing component (DESIGN.md §3.7). Every candidate is executed
//! in its own fork of the pristine simulator process, exactly like the run that found it.

use crate::oracle::{self, References, Violation};
use crate::plan::*;

pub struct Found {
    pub plan: Plan,
    pub script: Vec<Action>,
    pub violation: Violation,
    pub log_hash: u64,
    pub executions: u32,
    /// reported exactly as found (see `minimise`)
    pub unminimised: bool,
}

/// Executes the candidate under `Strategy::Script`; returns the re-recorded trace if the
/// target violation is still there.
/// Wall-clock budget of one minimisation; when it is used up the best candidate so far (which did
/// reproduce) is what gets reported. Shrinking less never makes a replay file wrong.
pub const MINIMISE_BUDGET: std::time::Duration = std::time::Duration::from_secs(45);

fn still(plan: &Plan, script: &[Action], target: &Violation, refs: &mut References, n: &mut u32) -> Option<(Vec<Action>, Violation, u64)> {
    if DEADLINE.with(|d| d.get().map(|t| std::time::Instant::now() > t).unwrap_or(false)) {
        return None; // out of budget: the candidate is not tried, i.e. not accepted
    }
    *n += 1;
    let r = oracle::run_forked(plan, Some(script), refs);
    let vs = oracle::violations_of(plan, refs, &r);
    let v = vs.into_iter().find(|v| v.same_as(target))?;
    match r {
        Ok(s) => Some((s.trace, v, s.log_hash)),
        // the process died: there is no re-recorded trace; keep the script we asked for
        Err(_) => Some((script.to_vec(), v, 0)),
    }
}

thread_local! {
    static DEADLINE: std::cell::Cell<Option<std::time::Instant>> = const { std::cell::Cell::new(None) };
}

/// `given`: the script the finding run was given (None: all decisions came from the plan's PRNG).
pub fn minimise(plan: &Plan, trace: &[Action], target: &Violation, refs: &mut References, given: Option<&[Action]>) -> Result<Found, String> {
    DEADLINE.with(|d| d.set(None));
    let mut r = minimise_inner(plan, trace, target, refs);
    DEADLINE.with(|d| d.set(None));
    if r.is_err() {
        // Re-expressing the run as (plan, recorded decisions) did not reproduce it. If executing the
        // very same request again does, the violation depends on something that any change of the
        // request perturbs (memory layout: code that keys on addresses); it is then reported
        // unminimised, as found - that replays exactly, the address space being the same in every
        // process (no randomisation, one memory image behind every fork).
        let again = oracle::run_forked(plan, given, refs);
        let vs = oracle::violations_of(plan, refs, &again);
        if let Some(v) = vs.into_iter().find(|v| v.same_as(target)) {
            let again2 = oracle::run_forked(plan, given, refs);
            if oracle::violations_of(plan, refs, &again2).iter().any(|x| x.same_as(target) && x.fingerprint == v.fingerprint) {
                let log_hash = again.as_ref().map(|s| s.log_hash).unwrap_or(0);
                r = Ok(Found { plan: plan.clone(), script: given.map(|g| g.to_vec()).unwrap_or_default(), violation: v, log_hash, executions: 3, unminimised: true });
            }
        }
    }
    r
}

fn minimise_inner(plan: &Plan, trace: &[Action], target: &Violation, refs: &mut References) -> Result<Found, String> {
    let mut n = 0u32;
    let mut plan = plan.clone();
    let original_strategy = plan.strategy.clone();
    let mut script = trace.to_vec();
    if !target.is_death() || !trace.is_empty() {
        plan.strategy = Strategy::Script;
    }
    let first = still(&plan, &script, target, refs, &mut n);
    let Some((t, mut viol, mut log_hash)) = first else {
        return Err(format!("the recorded trace of {} run {} does not reproduce its violation under replay", plan.stratum, plan.run));
    };
    script = t;
    let _ = original_strategy;
    DEADLINE.with(|d| d.set(Some(std::time::Instant::now() + MINIMISE_BUDGET)));

    macro_rules! attempt {
        ($cand:expr, $scr:expr) => {{
            let cand: Plan = $cand;
            let scr: Vec<Action> = $scr;
            if let Some((t, v, h)) = still(&cand, &scr, target, refs, &mut n) {
                plan = cand;
                script = t;
                viol = v;
                log_hash = h;
                true
            } else {
                false
            }
        }};
    }
    let needed = |p: &Plan, i: usize| -> bool {
        // the violating task itself must stay (one copy of it)
        !target.is_death() && p.tasks[i].key() == target.task_key && p.tasks.iter().filter(|t| t.key() == target.task_key).count() == 1
    };

    for _round in 0..3 {
        let before = (plan.clone(), script.len());
        // 1a. drop tasks in chunks (ddmin), for long plans
        let mut chunk = plan.tasks.len() / 2;
        while chunk >= 2 && plan.tasks.len() > 4 {
            let mut start = 0;
            let mut progress = false;
            while start < plan.tasks.len() {
                let end = (start + chunk).min(plan.tasks.len());
                let mut c = plan.clone();
                let mut kept = vec![];
                for (i, t) in plan.tasks.iter().enumerate() {
                    if i < start || i >= end || needed(&plan, i) {
                        kept.push(t.clone());
                    }
                }
                if kept.len() == plan.tasks.len() || kept.is_empty() {
                    start = end;
                    continue;
                }
                c.tasks = kept;
                if let Strategy::Pct { .. } = c.strategy {
                    c.strategy = Strategy::Script;
                }
                // long plans run sequentially; their scripts carry no information worth keeping
                let scr = if plan.tasks.len() > 64 { vec![] } else { script.clone() };
                if attempt!(c, scr) {
                    progress = true;
                    // same start: the next chunk slid into place
                } else {
                    start = end;
                }
            }
            if !progress || chunk > plan.tasks.len() / 2 {
                chunk /= 2;
            }
        }
        // 1b. drop tasks one at a time
        let mut i = plan.tasks.len();
        while i > 0 {
            i -= 1;
            if plan.tasks.len() <= 1 || i >= plan.tasks.len() {
                continue;
            }
            if needed(&plan, i) {
                continue;
            }
            let mut c = plan.clone();
            c.tasks.remove(i);
            if let Strategy::Pct { .. } = c.strategy {
                c.strategy = Strategy::Script;
            }
            attempt!(c, script.clone());
        }
        // 2. drop faults
        for i in 0..plan.tasks.len() {
            if plan.tasks[i].fault_planned() {
                let mut c = plan.clone();
                c.tasks[i].crash_at = None;
                c.tasks[i].emitter_crash_at = None;
                attempt!(c, script.clone());
            }
        }
        // 3. zero noise
        for i in 0..plan.tasks.len() {
            if !plan.tasks[i].noise.is_zero() {
                let mut c = plan.clone();
                c.tasks[i].noise = Default::default();
                attempt!(c, script.clone());
            }
        }
        // 4. no boundary faults
        if plan.allow_replace || plan.max_restarts > 0 {
            let mut c = plan.clone();
            c.allow_replace = false;
            c.max_restarts = 0;
            c.boundary_fault_pct = 0;
            if !attempt!(c, script.clone()) {
                if plan.allow_replace {
                    let mut c = plan.clone();
                    c.allow_replace = false;
                    attempt!(c, script.clone());
                }
                if plan.max_restarts > 0 {
                    let mut c = plan.clone();
                    c.max_restarts = 0;
                    attempt!(c, script.clone());
                }
            }
        }
        // 5. fewer workers
        for w in 1..plan.workers {
            let mut c = plan.clone();
            c.workers = w;
            if attempt!(c, script.clone()) {
                break;
            }
        }
        // 6. simpler topology
        if plan.globals == GlobalsMode::Epochs {
            let mut c = plan.clone();
            c.globals = GlobalsMode::Shared;
            c.max_restarts = 0;
            attempt!(c, script.clone());
        }
        if plan.globals == GlobalsMode::Shared {
            let mut c = plan.clone();
            c.globals = GlobalsMode::PerTask;
            attempt!(c, script.clone());
        }
        if plan.store == StoreMode::Shared {
            let mut c = plan.clone();
            c.store = StoreMode::PerTask;
            attempt!(c, script.clone());
        }
        if plan.handler_shared {
            let mut c = plan.clone();
            c.handler_shared = false;
            attempt!(c, script.clone());
        }
        if plan.opts_per_task {
            let mut c = plan.clone();
            c.opts_per_task = false;
            attempt!(c, script.clone());
        }
        if !plan.stack_kib.is_empty() {
            let mut c = plan.clone();
            c.stack_kib = vec![];
            attempt!(c, script.clone());
        }
        // 7. schedule: shortest script prefix (the canonical default continues it)
        if plan.strategy == Strategy::Script && !script.is_empty() {
            let (mut lo, mut hi) = (0usize, script.len());
            while lo < hi {
                let mid = (lo + hi) / 2;
                if still(&plan, &script[..mid], target, refs, &mut n).is_some() {
                    hi = mid;
                } else {
                    lo = mid + 1;
                }
            }
            if hi < script.len() {
                attempt!(plan.clone(), script[..hi].to_vec());
            }
        }
        // 8. schedule: remove single switches (bounded)
        if plan.strategy == Strategy::Script {
            let mut tries = 0;
            let mut i = script.len();
            while i > 0 && tries < 64 {
                i -= 1;
                if i >= script.len() {
                    continue;
                }
                let is_switch = i == 0 || script[i] != script[i - 1];
                if !is_switch {
                    continue;
                }
                tries += 1;
                let mut s = script.clone();
                s.remove(i);
                attempt!(plan.clone(), s);
            }
        }
        if before.0 == plan && before.1 == script.len() {
            break;
        }
    }
    // the minimised run must itself replay exactly
    DEADLINE.with(|d| d.set(None));
    let Some((t2, v2, h2)) = still(&plan, &script, target, refs, &mut n) else {
        return Err("minimised run does not reproduce".into());
    };
    if !target.is_death() && (h2 != log_hash || t2 != script || v2.fingerprint != viol.fingerprint) {
        return Err("minimised run is not deterministic under replay".into());
    }
    Ok(Found { plan, script, violation: viol, log_hash, executions: n, unminimised: false })
}
