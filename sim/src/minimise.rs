//! Shrinks a violating (plan, script) while the same violation class persists for the same
//! task and the same first differing component (DESIGN.md §3.7).

use crate::oracle::{self, References, Violation};
use crate::plan::*;
use crate::sched::{self, RunRecord};

pub struct Found {
    pub plan: Plan,
    pub script: Vec<Action>,
    pub violation: Violation,
    pub log_hash: u64,
    pub executions: u32,
}

fn run(plan: &Plan, script: &[Action], refs: &mut References) -> (RunRecord, Vec<Violation>) {
    let budgets = refs.budgets(plan);
    let rec = sched::execute(plan, Some(script), &budgets);
    let chk = oracle::check(plan, &rec, refs);
    (rec, chk.violations)
}

/// Executes the candidate under `Strategy::Script`; returns the re-recorded trace if the
/// target violation is still there.
fn still(plan: &Plan, script: &[Action], target: &Violation, refs: &mut References, n: &mut u32) -> Option<(Vec<Action>, Violation, u64)> {
    *n += 1;
    let (rec, vs) = run(plan, script, refs);
    vs.into_iter().find(|v| v.same_as(target)).map(|v| (rec.trace, v, rec.log_hash))
}

pub fn minimise(plan: &Plan, trace: &[Action], target: &Violation, refs: &mut References) -> Result<Found, String> {
    let mut n = 0u32;
    let mut plan = plan.clone();
    plan.strategy = Strategy::Script;
    let mut script = trace.to_vec();
    let Some((t, mut viol, mut log_hash)) = still(&plan, &script, target, refs, &mut n) else {
        return Err(format!("the recorded trace of {} run {} does not reproduce its violation under replay", plan.stratum, plan.run));
    };
    script = t;

    macro_rules! attempt {
        ($cand:expr, $scr:expr) => {{
            let cand: Plan = $cand;
            let scr: Vec<Action> = $scr;
            if let Some((t, v, h)) = still(&cand, &scr, target, refs, &mut n) {
                plan = cand;
                script = t;
                viol = v;
                log_hash = h;
                true
            } else {
                false
            }
        }};
    }

    for _round in 0..3 {
        let before = (plan.clone(), script.len());
        // a solo-T violation needs nothing but the task itself
        // 1. drop tasks
        let mut i = plan.tasks.len();
        while i > 0 {
            i -= 1;
            if plan.tasks.len() <= 1 {
                break;
            }
            if plan.tasks[i].key() == target.task_key && plan.tasks.iter().filter(|t| t.key() == target.task_key).count() == 1 {
                continue;
            }
            let mut c = plan.clone();
            c.tasks.remove(i);
            if let Strategy::Pct { .. } = c.strategy {
                c.strategy = Strategy::Script;
            }
            attempt!(c, script.clone());
        }
        // 2. drop faults
        for i in 0..plan.tasks.len() {
            if plan.tasks[i].fault_planned() {
                let mut c = plan.clone();
                c.tasks[i].crash_at = None;
                c.tasks[i].emitter_crash_at = None;
                attempt!(c, script.clone());
            }
        }
        // 3. zero noise
        for i in 0..plan.tasks.len() {
            if !plan.tasks[i].noise.is_zero() {
                let mut c = plan.clone();
                c.tasks[i].noise = Default::default();
                attempt!(c, script.clone());
            }
        }
        // 4. no boundary faults
        if plan.allow_replace || plan.max_restarts > 0 {
            let mut c = plan.clone();
            c.allow_replace = false;
            c.max_restarts = 0;
            c.boundary_fault_pct = 0;
            if !attempt!(c, script.clone()) {
                if plan.allow_replace {
                    let mut c = plan.clone();
                    c.allow_replace = false;
                    attempt!(c, script.clone());
                }
                if plan.max_restarts > 0 {
                    let mut c = plan.clone();
                    c.max_restarts = 0;
                    attempt!(c, script.clone());
                }
            }
        }
        // 5. fewer workers
        for w in 1..plan.workers {
            let mut c = plan.clone();
            c.workers = w;
            if attempt!(c, script.clone()) {
                break;
            }
        }
        // 6. simpler topology
        if plan.globals == GlobalsMode::Epochs {
            let mut c = plan.clone();
            c.globals = GlobalsMode::Shared;
            c.max_restarts = 0;
            attempt!(c, script.clone());
        }
        if plan.globals == GlobalsMode::Shared {
            let mut c = plan.clone();
            c.globals = GlobalsMode::PerTask;
            attempt!(c, script.clone());
        }
        if plan.store == StoreMode::Shared {
            let mut c = plan.clone();
            c.store = StoreMode::PerTask;
            attempt!(c, script.clone());
        }
        // 7. schedule: shortest script prefix (the canonical default continues it)
        {
            let (mut lo, mut hi) = (0usize, script.len());
            // invariant: prefix of length hi reproduces
            while lo < hi {
                let mid = (lo + hi) / 2;
                if still(&plan, &script[..mid], target, refs, &mut n).is_some() {
                    hi = mid;
                } else {
                    lo = mid + 1;
                }
            }
            if hi < script.len() {
                attempt!(plan.clone(), script[..hi].to_vec());
            }
        }
        // 8. schedule: remove single switches (bounded)
        {
            let mut tries = 0;
            let mut i = script.len();
            while i > 0 && tries < 64 {
                i -= 1;
                if i >= script.len() {
                    continue;
                }
                let is_switch = i == 0 || script[i] != script[i - 1];
                if !is_switch {
                    continue;
                }
                tries += 1;
                let mut s = script.clone();
                s.remove(i);
                attempt!(plan.clone(), s);
            }
        }
        if before.0 == plan && before.1 == script.len() {
            break;
        }
    }
    // the minimised run must itself replay exactly
    let Some((t2, v2, h2)) = still(&plan, &script, target, refs, &mut n) else {
        return Err("minimised run does not reproduce".into());
    };
    if h2 != log_hash || t2 != script || v2.fingerprint != viol.fingerprint {
        return Err("minimised run is not deterministic under replay".into());
    }
    Ok(Found { plan, script, violation: viol, log_hash, executions: n })
}
