//! One simulator process: computes the solo table, then executes its slice of every
//! stratum, checks every run, minimises what it finds, and reports on stdout as JSON lines.

use crate::minimise;
use crate::oracle::{self, References, Violation};
use crate::plan::*;
use crate::rng::{fnv_str, mix, Fnv};
use crate::sched::{Counters, Outcome};
use std::time::Duration;
use crate::strata::{TaskInfo, World};
use crate::workload;
use serde_json::json;
use std::collections::{BTreeMap, BTreeSet, HashSet};
use std::io::Write;

pub struct ChildArgs {
    pub seed: u64,
    pub thorough: bool,
    pub index: u64,
    pub of: u64,
    pub random_runs: u64,
    pub workload_dir: String,
    pub out_dir: String,
    pub audit_every: u64,
    /// run exactly one (stratum, run) and exit (used by mkreplay / debugging)
    pub only: Option<(String, u64)>,
    pub strata: Vec<String>,
    pub max_minimise: usize,
    pub run_timeout_s: u64,
    /// merged solo table written by the supervisor (None: compute the whole table here)
    pub solo_table: Option<String>,
}

fn emit(v: serde_json::Value) {
    let out = std::io::stdout();
    let mut l = out.lock();
    let _ = writeln!(l, "{}", v);
    let _ = l.flush();
}

/// Process deaths (per child) after which the remaining runs are skipped.
pub const MAX_DEATHS: u64 = 12;

pub struct Loaded {
    pub tasks: Vec<PlanTask>,
    pub refs: References,
    pub info: Vec<TaskInfo>,
    pub solo_hashes: Vec<(String, u64)>,
    pub solo_violations: Vec<Violation>,
    pub parse_failures: Vec<String>,
    pub modules: usize,
}

fn outcome_hash(o: &Outcome, steps: u32) -> u64 {
    let mut f = Fnv::default();
    f.u64(steps as u64);
    match o {
        Outcome::Returned(o) => {
            f.str(&o.code);
            f.str(&o.sig);
            f.str(&o.spans);
            for d in &o.diags {
                f.str(d)
            }
        }
        Outcome::Panicked(m) => f.str(&format!("panic {m}")),
        Outcome::Budget(n) => f.str(&format!("budget {n}")),
        Outcome::Crashed => f.str("crashed"),
        Outcome::ParseFail(m) => f.str(&format!("parse {m}")),
        Outcome::Died(_) => f.str("died"), // how (signal, which timeout) is not part of the result
    }
    f.0
}

/// Stratum 1: the solo table of the whole workload, under this process's hash keys.
pub fn load(workload_dir: &str, key_seed: u64, progress: bool, timeout: Duration) -> Loaded {
    let mods = workload::discover(workload_dir);
    let tasks = workload::tasks(&mods);
    let mut refs = References::new(key_seed, timeout);
    let mut info = vec![];
    let mut solo_hashes = vec![];
    let mut solo_violations: Vec<Violation> = vec![];
    let mut parse_failures = vec![];
    for (i, t) in tasks.iter().enumerate() {
        if progress {
            emit(json!({"s":"solo","run":i}));
        }
        let r = refs.get(t);
        let ok = matches!(r.outcome, Outcome::Returned(_));
        if let Outcome::ParseFail(m) = &r.outcome {
            parse_failures.push(format!("{}: {}", t.key(), m));
        }
        let ndiags = if let Outcome::Returned(o) = &r.outcome { o.diags.len() as u32 } else { 0 };
        if let Some(v) = oracle::check_solo(i, t, &r) {
            solo_violations.push(v);
        }
        solo_hashes.push((t.key(), outcome_hash(&r.outcome, r.steps)));
        info.push(TaskInfo { ok, steps: r.steps, sites: r.sites.clone(), ndiags });
    }
    Loaded { tasks, refs, info, solo_hashes, solo_violations, parse_failures, modules: mods.len() }
}

/// Which children compute the solo result of task `idx`: `REPLICAS` different processes with
/// different hash keys (the "fresh process" clause), instead of every child computing everything.
pub const REPLICAS: u64 = 3;
pub fn slice_owners(idx: u64, of: u64, replicas: u64) -> Vec<u64> {
    let mut v: Vec<u64> = vec![];
    for r in 0..replicas.min(REPLICAS).min(of) {
        let o = (idx + r * (of / REPLICAS.min(of)).max(1)) % of;
        if !v.contains(&o) {
            v.push(o);
        }
    }
    v
}

/// `solo-slice`: this process's share of stratum 1, written as JSON lines to `out`.
pub fn slice_main(workload_dir: &str, seed: u64, index: u64, of: u64, out: &str, timeout: Duration) -> i32 {
    let t0 = std::time::Instant::now();
    let key_seed = mix(seed ^ 0x50_10 ^ (index << 20));
    let mods = workload::discover(workload_dir);
    let tasks = workload::tasks(&mods);
    let mut refs = References::new(key_seed, timeout);
    let mut lines = String::new();
    let mut n = 0u64;
    for (i, t) in tasks.iter().enumerate() {
        // three processes for the module's own and the hand-picked option sets, two for the rows of the covering array
        let owners = slice_owners(i as u64, of, if t.opt_name.starts_with('c') { 2 } else { REPLICAS });
        if !owners.contains(&index) {
            continue;
        }
        n += 1;
        let r = refs.get(t);
        let primary = owners[0] == index;
        let v = json!({"idx": i, "key": t.key(), "hash": format!("{:016x}", outcome_hash(&r.outcome, r.steps)), "solo": if primary { serde_json::to_value(&*r).unwrap() } else { serde_json::Value::Null }});
        lines.push_str(&v.to_string());
        lines.push('\n');
    }
    if std::fs::write(out, lines).is_err() {
        return 2;
    }
    emit(json!({"slice_done": {"index": index, "tasks": tasks.len(), "modules": mods.len(), "computed": n, "ms": t0.elapsed().as_millis() as u64}}));
    0
}

/// Stratum 1 from the merged table the supervisor wrote.
pub fn load_table(workload_dir: &str, table: &str, key_seed: u64, timeout: Duration) -> Result<Loaded, String> {
    let mods = workload::discover(workload_dir);
    let tasks = workload::tasks(&mods);
    let text = std::fs::read_to_string(table).map_err(|e| format!("{table}: {e}"))?;
    let solos: Vec<crate::sched::SoloResult> = serde_json::from_str(&text).map_err(|e| format!("{table}: {e}"))?;
    if solos.len() != tasks.len() {
        return Err(format!("{table}: {} entries for {} workload tasks", solos.len(), tasks.len()));
    }
    let mut refs = References::new(key_seed, timeout);
    let mut info = vec![];
    let mut solo_hashes = vec![];
    let mut solo_violations: Vec<Violation> = vec![];
    let mut parse_failures = vec![];
    for (i, (t, r)) in tasks.iter().zip(solos).enumerate() {
        let ok = matches!(r.outcome, Outcome::Returned(_));
        if let Outcome::ParseFail(m) = &r.outcome {
            parse_failures.push(format!("{}: {}", t.key(), m));
        }
        if let Outcome::Died(m) = &r.outcome {
            // somebody already paid for finding out that this module never finishes
            if m.contains("did not finish within") {
                refs.timeout = refs.timeout.min(Duration::from_secs(30));
            }
        }
        let ndiags = if let Outcome::Returned(o) = &r.outcome { o.diags.len() as u32 } else { 0 };
        if let Some(v) = oracle::check_solo(i, t, &r) {
            solo_violations.push(v);
        }
        solo_hashes.push((t.key(), outcome_hash(&r.outcome, r.steps)));
        info.push(TaskInfo { ok, steps: r.steps, sites: r.sites.clone(), ndiags });
        refs.preload(t, r);
    }
    Ok(Loaded { tasks, refs, info, solo_hashes, solo_violations, parse_failures, modules: mods.len() })
}

/// What came out of preparing one raw `gen` plan.
#[derive(Default)]
pub struct GenPrep {
    /// violations seen on a generated task run alone (T, R, or D fresh-process), with the task
    pub violations: Vec<(Violation, PlanTask)>,
    pub generated: u64,
    pub unparseable: u64,
    pub solo_execs: u64,
    pub ts: u64,
    pub with_diags: u64,
}

pub fn is_gen(t: &PlanTask) -> bool {
    t.name.starts_with("gen/")
}

/// The module name used to tell findings apart: every generated module has a name of its own, so
/// findings on generated modules are told apart by what failed, not by where.
pub fn module_class(name: &str) -> String {
    if name.starts_with("gen/") {
        "gen/*".to_string()
    } else {
        name.to_string()
    }
}

/// Solo result of a generated task under a second set of hash keys; Some(violation) if the task does
/// not return alone, leaves residue, or gives another result than `first` (the fresh-process clause).
fn gen_solo_violation(idx: usize, t: &PlanTask, first: &crate::sched::SoloResult, alt_key: u64, timeout: Duration, execs: &mut u64) -> Option<Violation> {
    if let Some(v) = oracle::check_solo(idx, t, first) {
        return Some(v);
    }
    if !matches!(first.outcome, Outcome::Returned(_)) {
        return None;
    }
    *execs += 1;
    let second = References::new(alt_key, timeout).get(t);
    if outcome_hash(&first.outcome, first.steps) != outcome_hash(&second.outcome, second.steps) {
        let mut detail = vec![format!("the result of generated task {} run alone differs between two fresh processes (hash keys differ)", t.key())];
        if let (Outcome::Returned(a), Outcome::Returned(b)) = (&first.outcome, &second.outcome) {
            for (x, y) in a.code.lines().zip(b.code.lines()) {
                if x != y {
                    detail.push(format!("process 1: {x}"));
                    detail.push(format!("process 2: {y}"));
                    break;
                }
            }
        } else {
            detail.push(format!("process 2: {:?}", second.outcome).chars().take(300).collect());
        }
        return Some(Violation { clause: "D".into(), task_idx: idx, task_key: t.key(), component: "fresh-process".into(), fingerprint: "solo".into(), detail });
    }
    None
}

/// Computes the solo references of the generated tasks of a raw `gen` plan, drops those that do not
/// parse (counted) or violate C08 alone (returned), and plants the faults. Pure in (plan, code under test).
pub fn prepare_gen(plan: &mut Plan, refs: &mut References) -> GenPrep {
    let mut out = GenPrep::default();
    let alt_key = mix(plan.key_seed ^ 0x616c_7431);
    let mut keep: Vec<PlanTask> = vec![];
    let mut steps = vec![];
    let mut ndiags = vec![];
    for (i, t) in plan.tasks.iter().enumerate() {
        let before = refs.computed;
        let r = refs.get(t);
        out.solo_execs += refs.computed - before;
        if is_gen(t) {
            out.generated += 1;
            out.ts += t.ts as u64;
            if let Outcome::ParseFail(_) = r.outcome {
                out.unparseable += 1;
                continue;
            }
            if let Some(v) = gen_solo_violation(i, t, &r, alt_key, refs.timeout, &mut out.solo_execs) {
                out.violations.push((v, t.clone()));
                continue;
            }
        }
        let Outcome::Returned(o) = &r.outcome else { continue };
        out.with_diags += (is_gen(t) && !o.diags.is_empty()) as u64;
        steps.push(r.steps);
        ndiags.push(o.diags.len() as u32);
        keep.push(t.clone());
    }
    plan.tasks = keep;
    if let Strategy::Pct { priorities, .. } = &mut plan.strategy {
        // priorities are per task: keep it a permutation of what is left
        let n = plan.tasks.len() as u32;
        priorities.retain(|p| *p < n);
    }
    World::finish_gen(plan, &steps, &ndiags);
    out
}

/// Shrinks the text of a generated task that violates C08 alone: drops lines (every line of a
/// generated module is a complete statement) while the same component keeps failing.
pub fn shrink_gen(t: &PlanTask, v: &Violation, key_seed: u64, timeout: Duration) -> (PlanTask, u32) {
    let mut best = t.clone();
    let mut execs = 0u32;
    let t0 = std::time::Instant::now();
    let fails = |cand: &PlanTask, execs: &mut u32| -> bool {
        *execs += 1;
        let first = References::new(key_seed, timeout).get(cand);
        let mut e = 0u64;
        match gen_solo_violation(0, cand, &first, mix(key_seed ^ 0x616c_7431), timeout, &mut e) {
            Some(v2) => v2.class() == v.class() && v2.component == v.component,
            None => false,
        }
    };
    loop {
        let mut progressed = false;
        let lines: Vec<String> = best.src.lines().map(String::from).collect();
        let mut i = lines.len();
        while i > 0 {
            i -= 1;
            if execs >= 120 || t0.elapsed() > Duration::from_secs(40) {
                return (best, execs);
            }
            let cur: Vec<String> = best.src.lines().map(String::from).collect();
            if i >= cur.len() || cur.len() <= 1 {
                continue;
            }
            let mut cand = best.clone();
            cand.src = cur.iter().enumerate().filter(|(j, _)| *j != i).map(|(_, l)| l.as_str()).collect::<Vec<_>>().join("\n") + "\n";
            if fails(&cand, &mut execs) {
                best = cand;
                progressed = true;
            }
        }
        if !progressed {
            break;
        }
    }
    // simpler configuration: comments off, Module instead of Script
    for f in [0, 1] {
        let mut cand = best.clone();
        if f == 0 && cand.script {
            cand.script = false;
        } else if f == 1 && !cand.comments {
            cand.comments = true;
        } else {
            continue;
        }
        if fails(&cand, &mut execs) {
            best = cand;
        }
    }
    (best, execs)
}

#[derive(Default)]
struct Stats {
    runs: BTreeMap<String, u64>,
    steps: u64,
    c: Counters,
    tasks_compared: u64,
    tasks_faulted: u64,
    nontrivial: u64,
    audits: u64,
    audit_mismatch: u64,
    audit_soft: u64,
    minimise_execs: u64,
    deaths: u64,
    /// runs per value of each dimension of the simulated host
    dims: BTreeMap<String, u64>,
    gen: GenPrep,
}

fn add(a: &mut Counters, b: &Counters) {
    a.events += b.events;
    a.switches += b.switches;
    a.live_switches += b.live_switches;
    a.live_switches_in_transform += b.live_switches_in_transform;
    a.crash_fired += b.crash_fired;
    a.emitter_crash_fired += b.emitter_crash_fired;
    a.worker_replaced += b.worker_replaced;
    a.globals_restarted += b.globals_restarted;
    a.noise_marks += b.noise_marks;
    a.diag_while_other_parked += b.diag_while_other_parked;
    a.crash_then_same_worker_reused += b.crash_then_same_worker_reused;
    a.budget_fired += b.budget_fired;
    a.pure_comment_tasks_in_shared_store += b.pure_comment_tasks_in_shared_store;
    a.blocked_handoffs += b.blocked_handoffs;
}

pub fn counters_json(c: &Counters) -> serde_json::Value {
    json!({
        "events": c.events, "switches": c.switches, "live_switches": c.live_switches,
        "live_switches_in_transform": c.live_switches_in_transform,
        "crash_fired": c.crash_fired, "emitter_crash_fired": c.emitter_crash_fired,
        "worker_replaced": c.worker_replaced, "globals_restarted": c.globals_restarted,
        "noise_marks": c.noise_marks, "diag_while_other_parked": c.diag_while_other_parked,
        "crash_then_same_worker_reused": c.crash_then_same_worker_reused, "budget_fired": c.budget_fired,
        "pure_comment_tasks_in_shared_store": c.pure_comment_tasks_in_shared_store,
        "blocked_handoffs": c.blocked_handoffs,
    })
}

pub fn describe(plan: &Plan, trace: &[Action]) -> serde_json::Value {
    let enc = encode_script(trace);
    json!({
        "stratum": plan.stratum, "run": plan.run, "workers": plan.workers,
        "globals": format!("{:?}", plan.globals), "comments_store": format!("{:?}", plan.store),
        "options": if plan.opts_per_task { "deserialised per file, dropped after it" } else { "deserialised once, cloned per file" },
        "worker_stack_kib": if plan.stack_kib.is_empty() { json!("65536 (all)") } else { json!(plan.stack_kib) },
        "strategy": match &plan.strategy { Strategy::Random{stay} => format!("random(stay={stay}%)"), Strategy::Pct{change_points,..} => format!("pct(d={})", change_points.len()), Strategy::Script => "script".into() },
        "tasks": plan.tasks.iter().map(|t| json!({"task": t.key(), "crash_at": t.crash_at, "emitter_crash_at": t.emitter_crash_at, "noise": if t.noise.is_zero() { json!(null) } else { serde_json::to_value(&t.noise).unwrap() }})).collect::<Vec<_>>(),
        "first_decisions": enc.iter().take(40).collect::<Vec<_>>(),
        "decisions_total": trace.len(),
    })
}

pub fn write_replay(dir: &str, name: &str, rf: &ReplayFile) -> String {
    let _ = std::fs::create_dir_all(dir);
    let path = format!("{dir}/{name}");
    std::fs::write(&path, serde_json::to_string_pretty(rf).unwrap()).expect("write replay file");
    path
}

fn sanitize(s: &str) -> String {
    s.chars().map(|c| if c.is_ascii_alphanumeric() { c } else { '_' }).collect::<String>().trim_matches('_').chars().take(60).collect()
}

pub fn child_main(a: ChildArgs) -> i32 {
    let t0 = std::time::Instant::now();
    let key_seed = mix(a.seed ^ 0x50_10 ^ (a.index << 20));
    let ld = match &a.solo_table {
        Some(p) => match load_table(&a.workload_dir, p, key_seed, Duration::from_secs(a.run_timeout_s)) {
            Ok(l) => l,
            Err(e) => {
                emit(json!({"done": {"index": a.index, "harness_errors": [format!("solo table: {e}")]}}));
                return 2;
            }
        },
        None => load(&a.workload_dir, key_seed, true, Duration::from_secs(a.run_timeout_s)),
    };
    let Loaded { tasks, mut refs, info, solo_hashes, solo_violations, parse_failures, modules } = ld;
    if a.solo_table.is_none() {
        emit(json!({"solo_table": {"tasks": tasks.len(), "modules": modules, "ms": t0.elapsed().as_millis() as u64,
            "hashes": solo_hashes.iter().map(|(k,h)| json!([k, format!("{h:016x}")])).collect::<Vec<_>>(),
            "parse_failures": parse_failures,
            "steps_total": info.iter().map(|i| i.steps as u64).sum::<u64>(),
        }}));
    }

    let mut seen_sigs: HashSet<(String, String, String)> = HashSet::new();
    let mut minimised = 0usize;
    let mut violations_total = 0u64;

    // stratum 1 violations (T on a module alone / residue): one replay per (module, component)
    for v in &solo_violations {
        violations_total += 1;
        let t = &tasks[v.task_idx];
        let sig = (v.class().to_string(), t.name.clone(), v.component.clone());
        if !seen_sigs.insert(sig) {
            continue;
        }
        // only the child that owns the task writes the replay (all children see the same violations)
        if (v.task_idx as u64) % a.of != a.index {
            continue;
        }
        let mut plan = Plan {
            seed: a.seed,
            stratum: "solo".into(),
            run: v.task_idx as u64,
            workers: 1,
            globals: GlobalsMode::PerTask,
            store: StoreMode::PerTask,
            strategy: Strategy::Script,
            boundary_fault_pct: 0,
            allow_replace: false,
            max_restarts: 0,
            key_seed,
            sched_seed: 0,
            opts_per_task: false,
            stack_kib: vec![],
            handler_shared: false,
            tasks: vec![t.clone()],
        };
        plan.tasks[0].crash_at = None;
        let rf = ReplayFile {
            property: "C08".into(),
            note: "T: the transform does not return on this module alone (no schedule or fault needed)".into(),
            plan,
            script: Some(vec![]),
            expected: Some(v.expected()),
            detail: v.detail.clone(),
        };
        let path = write_replay(&a.out_dir, &format!("C08-{}-solo-{}.json", a.seed, sanitize(&format!("{}-{}", t.name, v.component))), &rf);
        emit(json!({"violation": {"clause": v.clause, "task": v.task_key, "module": t.name, "opt": t.opt_name, "component": v.component, "replay": path, "detail": v.detail, "stratum": "solo"}}));
    }

    let world = World::build(a.seed, a.thorough, tasks, info);
    emit(json!({"world": {"pool": world.pool.len(), "crash_runs": world.len("crash", 0), "preempt_runs": world.len("preempt", 0), "random_runs": a.random_runs,
        "sites": world.by_site.keys().collect::<Vec<_>>(), "probes": world.probes.iter().map(|i| world.tasks[*i].key()).collect::<Vec<_>>() }}));

    let mut st = Stats::default();
    let mut inter_all: BTreeSet<u64> = BTreeSet::new();
    let mut inter_nontrivial: BTreeSet<u64> = BTreeSet::new();
    let mut samples: Vec<serde_json::Value> = vec![];
    let mut harness_errors: Vec<String> = vec![];
    let mut skipped_after_deaths = 0u64;

    for stratum in a.strata.iter().map(|s| s.as_str()) {
        let n = world.len(stratum, a.random_runs);
        let mut sampled = false;
        for run in 0..n {
            if let Some((s, r)) = &a.only {
                if s != stratum || *r != run {
                    continue;
                }
            } else if run % a.of != a.index {
                continue;
            }
            if st.deaths >= MAX_DEATHS && a.only.is_none() {
                // a tree on which run after run kills its process is broken beyond doubt; each death
                // costs seconds (limits, deadlock detection), so the rest of the exploration is skipped
                skipped_after_deaths += 1;
                continue;
            }
            emit(json!({"s": stratum, "run": run}));
            let (mut plan, script) = world.plan(stratum, run);
            if stratum == "gen" {
                let prep = prepare_gen(&mut plan, &mut refs);
                st.gen.generated += prep.generated;
                st.gen.unparseable += prep.unparseable;
                st.gen.solo_execs += prep.solo_execs;
                st.gen.ts += prep.ts;
                st.gen.with_diags += prep.with_diags;
                for (v, t) in prep.violations {
                    violations_total += 1;
                    let sig = (v.class().to_string(), module_class(&t.name), v.component.clone());
                    if !seen_sigs.insert(sig) {
                        continue;
                    }
                    let (small, execs) = shrink_gen(&t, &v, key_seed, refs.timeout.min(Duration::from_secs(10)));
                    st.minimise_execs += execs as u64;
                    let fresh = v.component == "fresh-process";
                    let rf = ReplayFile {
                        property: "C08".into(),
                        note: format!(
                            "generated module (stratum gen run {run}, seed {}), text minimised from {} to {} lines with {execs} executions; {}",
                            a.seed,
                            t.src.lines().count(),
                            small.src.lines().count(),
                            if fresh { "D (fresh-process clause): its result run alone depends on the process's hash keys" } else { "the transform does not return on this module alone (no schedule or fault needed)" }
                        ),
                        plan: Plan { stratum: if fresh { "solo2".into() } else { "solo".into() }, workers: 1, globals: GlobalsMode::PerTask, store: StoreMode::PerTask, strategy: Strategy::Script, boundary_fault_pct: 0, allow_replace: false, max_restarts: 0, key_seed, opts_per_task: false, stack_kib: vec![], handler_shared: false, tasks: vec![small.clone()], ..plan.clone() },
                        script: Some(vec![]),
                        expected: Some(Expected { task: small.key(), ..v.expected() }),
                        detail: v.detail.clone(),
                    };
                    let path = write_replay(&a.out_dir, &format!("C08-{}-gen-{}-{}-{:08x}.json", a.seed, run, sanitize(&t.name.rsplit('.').next().unwrap_or("").to_string()), fnv_str(&format!("{}{}", v.task_key, v.component)) as u32), &rf);
                    emit(json!({"violation": {"clause": v.clause, "task": v.task_key, "module": t.name, "opt": t.options, "component": v.component, "replay": path, "detail": v.detail.iter().cloned().chain(small.src.lines().take(12).map(|l| format!("  | {l}"))).collect::<Vec<_>>(), "stratum": "gen"}}));
                }
                if plan.tasks.is_empty() {
                    continue;
                }
            }
            let plan = plan;
            let script_opt: Option<&[Action]> = if script.is_empty() { None } else { Some(&script) };
            let res = oracle::run_forked(&plan, script_opt, &mut refs);
            *st.runs.entry(stratum.to_string()).or_default() += 1;
            for d in [
                format!("workers={}", plan.workers),
                format!("globals={:?}", plan.globals),
                format!("comments_store={:?}", plan.store),
                format!("options={}", if plan.opts_per_task { "deserialised per file and dropped" } else { "deserialised once, cloned" }),
                format!("worker_stacks={}", if plan.stack_kib.is_empty() { "64 MiB".to_string() } else if plan.stack_kib.iter().any(|k| *k <= 2048) { "mixed, some 2 MiB".to_string() } else { "mixed, 8-64 MiB".to_string() }),
                format!("diagnostics_handler={}", if plan.handler_shared { "one for all files" } else { "one per file" }),
                format!("strategy={}", match &plan.strategy { Strategy::Random { .. } => "random", Strategy::Pct { .. } => "pct", Strategy::Script => "scripted / canonical" }),
                format!("tasks={}", match plan.tasks.len() { 0..=3 => "1-3", 4..=8 => "4-8", _ => "9+" }),
                format!("noise={}", if plan.tasks.iter().any(|t| !t.noise.is_zero()) { "some" } else { "none" }),
            ] {
                *st.dims.entry(d).or_default() += 1;
            }
            let violations = oracle::violations_of(&plan, &mut refs, &res);
            let mut trace: Vec<Action> = vec![];
            match &res {
                Ok(s) => {
                    trace = s.trace.clone();
                    st.steps += s.counters.events;
                    add(&mut st.c, &s.counters);
                    st.tasks_compared += s.checked.tasks_compared as u64;
                    st.tasks_faulted += s.checked.tasks_faulted as u64;
                    let faults_fired = s.counters.crash_fired + s.counters.emitter_crash_fired + s.counters.worker_replaced + s.counters.globals_restarted;
                    let nontrivial = s.counters.live_switches > 0 || faults_fired > 0;
                    inter_all.insert(s.interleaving);
                    if nontrivial {
                        st.nontrivial += 1;
                        inter_nontrivial.insert(s.interleaving);
                    }
                    if !sampled && nontrivial && a.index == 0 && plan.tasks.len() <= 8 {
                        sampled = true;
                        samples.push(describe(&plan, &s.trace));
                    }
                    if !s.checked.parse_failures.is_empty() {
                        harness_errors.push(format!("parse failure inside a simulated run: {:?}", s.checked.parse_failures));
                    }
                    // self-audit: the same (plan, decisions) again, in another fork, must give the same event log
                    if a.audit_every > 0 && run % a.audit_every == (a.seed % a.audit_every) {
                        st.audits += 1;
                        match oracle::run_forked(&plan, script_opt, &mut refs) {
                            Ok(s2) if s2.log_hash == s.log_hash && s2.trace == s.trace => {}
                            Ok(s2) if s.counters.blocked_handoffs > 0 || s2.counters.blocked_handoffs > 0 => {
                                // a task of the code under test blocked on a real lock that a parked task holds: who is
                                // found asleep when is then a matter of wall-clock timing (DESIGN.md 3.3 "Locks"), and on
                                // a heavily loaded machine two executions can part ways. Counted, not an error: every
                                // result was still compared with its solo reference in both executions.
                                st.audit_soft += 1;
                            }
                            _ => {
                                st.audit_mismatch += 1;
                                harness_errors.push(format!("self-audit: {stratum} run {run} gave two different event logs"));
                            }
                        }
                    }
                }
                Err(_) => {
                    st.deaths += 1;
                    // the run died before it could hand back its decisions: what is known is the
                    // script it was given (systematic strata); the rest is re-drawn from the plan's PRNG
                    trace = script.clone();
                }
            }
            for v in violations {
                if v.fingerprint == "solo" {
                    continue; // reported by stratum 1
                }
                violations_total += 1;
                let module = if v.is_death() { format!("{stratum}:{run}") } else { plan.tasks[v.task_idx].name.clone() };
                let sig = (v.class().to_string(), module_class(&module), v.component.clone());
                if seen_sigs.contains(&sig) || minimised >= a.max_minimise {
                    continue;
                }
                seen_sigs.insert(sig);
                minimised += 1;
                match minimise::minimise(&plan, &trace, &v, &mut refs, script_opt) {
                    Ok(f) => {
                        st.minimise_execs += f.executions as u64;
                        let rf = ReplayFile {
                            property: "C08".into(),
                            note: if f.unminimised {
                                format!("found by stratum `{}` run {} (seed {}); reported as found, not minimised: the violation vanishes under any change of the plan (it depends on memory layout)", stratum, run, a.seed)
                            } else {
                                format!("found by stratum `{}` run {} (seed {}), minimised from {} tasks / {} decisions with {} executions", stratum, run, a.seed, plan.tasks.len(), trace.len(), f.executions)
                            },
                            plan: f.plan.clone(),
                            script: if f.plan.strategy == Strategy::Script || (f.unminimised && !f.script.is_empty()) { Some(encode_script(&f.script)) } else { None },
                            expected: Some(f.violation.expected()),
                            detail: f.violation.detail.clone(),
                        };
                        let path = write_replay(&a.out_dir, &format!("C08-{}-{}-{}-{}.json", a.seed, stratum, run, sanitize(&module)), &rf);
                        emit(json!({"violation": {"clause": f.violation.clause, "task": f.violation.task_key, "module": module, "opt": f.plan.tasks.iter().find(|t| t.key()==f.violation.task_key).map(|t| t.opt_name.clone()), "component": f.violation.component, "replay": path, "detail": f.violation.detail, "stratum": stratum,
                            "minimised": {"tasks": f.plan.tasks.len(), "decisions": f.script.len(), "workers": f.plan.workers, "faults": f.plan.tasks.iter().filter(|t| t.fault_planned()).count()}}}));
                    }
                    Err(e) => {
                        harness_errors.push(format!("minimiser: {e}"));
                    }
                }
            }
            if stratum == "gen" {
                for t in &plan.tasks {
                    if is_gen(t) {
                        refs.forget(t);
                    }
                }
            }
        }
    }
    let wall = t0.elapsed().as_secs_f64();
    // hand the interleaving fingerprints to the supervisor through a file (sets are unioned there)
    let mut fp_path = String::new();
    if a.only.is_none() {
        fp_path = format!("{}/fp-{}.bin", a.out_dir, a.index);
        let _ = std::fs::create_dir_all(&a.out_dir);
        let mut bytes = Vec::with_capacity(inter_all.len() * 9);
        for h in &inter_all {
            bytes.push(if inter_nontrivial.contains(h) { 1u8 } else { 0u8 });
            bytes.extend_from_slice(&h.to_le_bytes());
        }
        std::fs::write(&fp_path, bytes).expect("write fingerprints");
    }
    emit(json!({"done": {
        "index": a.index, "wall_s": wall, "runs": st.runs, "steps": st.steps, "counters": counters_json(&st.c),
        "tasks_compared": st.tasks_compared, "tasks_faulted": st.tasks_faulted, "nontrivial_runs": st.nontrivial,
        "distinct_interleavings": inter_all.len(), "distinct_nontrivial": inter_nontrivial.len(), "fingerprints": fp_path,
        "audits": st.audits, "audit_mismatch": st.audit_mismatch, "audit_soft": st.audit_soft, "minimise_execs": st.minimise_execs,
        "violations_total": violations_total, "solos_computed": refs.computed, "deaths": st.deaths, "skipped_after_deaths": skipped_after_deaths,
        "samples": samples, "harness_errors": harness_errors, "dims": st.dims,
        "gen": {"generated": st.gen.generated, "unparseable": st.gen.unparseable, "solo_execs": st.gen.solo_execs, "ts": st.gen.ts, "with_diags": st.gen.with_diags},
    }}));
    let _ = fnv_str;
    0
}
