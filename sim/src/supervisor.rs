//! The supervisor: fans the strata out to child processes, is the only thing that survives
//! when a child dies (real stack overflow, abort, endless loop without a hook in it),
//! confirms every replay file in a fresh process, applies the known-findings list, writes
//! the evidence file and prints the verdict lines.

use serde_json::{json, Value};
use std::collections::{BTreeMap, BTreeSet};
use std::io::{BufRead, BufReader};
use std::process::{Command, Stdio};
use std::sync::mpsc;
use std::time::{Duration, Instant};

pub struct CheckArgs {
    pub seed: u64,
    pub thorough: bool,
    pub children: u64,
    pub random_runs: u64,
    pub verif_dir: String,
    pub strata: Vec<String>,
    pub audit_every: u64,
    pub write_evidence: bool,
    pub run_timeout_s: u64,
    /// stop exploring at the first violation that is not a listed known finding (tools that only need the verdict)
    pub first_only: bool,
}

enum Msg {
    Line(usize, String),
    Eof(usize),
}

#[derive(Clone, Debug)]
struct Viol {
    clause: String,
    module: String,
    opt: String,
    task: String,
    component: String,
    replay: String,
    detail: Vec<String>,
    stratum: String,
    minimised: Value,
}

struct Known {
    status: String,
    what: String,
    clause: String,
    module: String,
    component_prefix: String,
}

fn load_known(path: &str) -> Result<Vec<Known>, String> {
    let Ok(text) = std::fs::read_to_string(path) else { return Ok(vec![]) };
    let v: Value = serde_json::from_str(&text).map_err(|e| format!("{path}: {e}"))?;
    let mut out = vec![];
    for f in v["findings"].as_array().cloned().unwrap_or_default() {
        out.push(Known {
            status: f["status"].as_str().unwrap_or("").to_string(),
            what: f["what"].as_str().unwrap_or("").to_string(),
            clause: f["match"]["clause"].as_str().unwrap_or("").to_string(),
            module: f["match"]["module"].as_str().unwrap_or("").to_string(),
            component_prefix: f["match"]["component_prefix"].as_str().unwrap_or("").to_string(),
        });
    }
    Ok(out)
}

fn class(c: &str) -> &str {
    if c == "T" {
        "T"
    } else {
        "D"
    }
}

/// Runs `sim replay-inner <file>` in a fresh process. Ok(true) = reproduced.
pub fn confirm_replay(path: &str, timeout: Duration) -> Result<(bool, String), String> {
    let exe = std::env::current_exe().map_err(|e| e.to_string())?;
    let mut child = Command::new(exe).arg("replay-inner").arg(path).stdout(Stdio::piped()).stderr(Stdio::null()).spawn().map_err(|e| e.to_string())?;
    let t0 = Instant::now();
    let status = loop {
        match child.try_wait().map_err(|e| e.to_string())? {
            Some(s) => break Some(s),
            None => {
                if t0.elapsed() > timeout {
                    let _ = child.kill();
                    let _ = child.wait();
                    break None;
                }
                std::thread::sleep(Duration::from_millis(20));
            }
        }
    };
    let mut out = String::new();
    if let Some(mut so) = child.stdout.take() {
        use std::io::Read;
        let _ = so.read_to_string(&mut out);
    }
    match status {
        None => Ok((true, format!("the replay did not finish within {} s (endless loop)", timeout.as_secs()))),
        Some(s) => match s.code() {
            Some(1) => Ok((true, out)),
            Some(0) => Ok((false, out)),
            Some(c) => Err(format!("replay-inner exited with {c}: {out}")),
            None => Ok((true, format!("the replay process was killed by a signal ({s}) — stack overflow or abort"))),
        },
    }
}

pub fn check_main(a: CheckArgs) -> i32 {
    let t0 = Instant::now();
    let exe = std::env::current_exe().expect("current exe");
    let replay_dir = format!("{}/replays", a.verif_dir);
    let tmp_dir = format!("{}/replays/tmp", a.verif_dir);
    let _ = std::fs::remove_dir_all(&tmp_dir);
    std::fs::create_dir_all(&tmp_dir).expect("create replays/tmp");
    let tier = if a.thorough { "thorough" } else { "quick" };
    println!("C08 simulation: VERIF_SEED={} tier={} children={} random_runs={}", a.seed, tier, a.children, a.random_runs);

    let known = match load_known(&format!("{}/known_findings.json", a.verif_dir)) {
        Ok(k) => k,
        Err(e) => {
            println!("HARNESS-ERROR: {e}");
            return 2;
        }
    };

    // ---- stratum 1: the solo table, each task computed in REPLICAS different child processes
    // (different hash keys), merged here and handed to all children
    let mut harness_errors: Vec<String> = vec![];
    let mut per_key: BTreeMap<String, BTreeSet<String>> = BTreeMap::new();
    let mut parse_failures: BTreeSet<String> = BTreeSet::new();
    let mut solo_ms = 0u64;
    let mut modules = 0u64;
    let mut tasks_n = 0u64;
    let mut solo_evals = 0u64;
    let table_path = format!("{tmp_dir}/solo-table.json");
    {
        let mut slices = vec![];
        for i in 0..a.children {
            let out = format!("{tmp_dir}/slice-{i}.jsonl");
            let c = Command::new(&exe)
                .arg("solo-slice")
                .arg("--seed").arg(a.seed.to_string())
                .arg("--index").arg(i.to_string())
                .arg("--of").arg(a.children.to_string())
                .arg("--workload").arg(format!("{}/workload", a.verif_dir))
                .arg("--out").arg(&out)
                .arg("--run-timeout").arg(a.run_timeout_s.to_string())
                .stdout(Stdio::piped())
                .stderr(Stdio::null())
                .spawn()
                .expect("spawn solo-slice");
            slices.push((c, out));
        }
        let mut table: Vec<Value> = vec![];
        for (i, (c, out)) in slices.into_iter().enumerate() {
            let o = c.wait_with_output().expect("wait solo-slice");
            let summary = String::from_utf8_lossy(&o.stdout).lines().filter_map(|l| serde_json::from_str::<Value>(l).ok()).find(|v| v.get("slice_done").is_some());
            let Some(summary) = summary else {
                harness_errors.push(format!("solo-slice {i} did not finish ({})", o.status));
                continue;
            };
            let sd = &summary["slice_done"];
            solo_ms = solo_ms.max(sd["ms"].as_u64().unwrap_or(0));
            modules = sd["modules"].as_u64().unwrap_or(0);
            tasks_n = sd["tasks"].as_u64().unwrap_or(0);
            solo_evals += sd["computed"].as_u64().unwrap_or(0);
            if table.len() < tasks_n as usize {
                table.resize(tasks_n as usize, Value::Null);
            }
            for l in std::fs::read_to_string(&out).unwrap_or_default().lines() {
                let Ok(v) = serde_json::from_str::<Value>(l) else { continue };
                per_key.entry(v["key"].as_str().unwrap_or("").to_string()).or_default().insert(v["hash"].as_str().unwrap_or("").to_string());
                if !v["solo"].is_null() {
                    if let Some(m) = v["solo"]["outcome"].get("ParseFail").and_then(|m| m.as_str()) {
                        parse_failures.insert(format!("{}: {}", v["key"].as_str().unwrap_or(""), m));
                    }
                    let idx = v["idx"].as_u64().unwrap_or(0) as usize;
                    if idx < table.len() {
                        table[idx] = v["solo"].clone();
                    }
                }
            }
            let _ = std::fs::remove_file(&out);
        }
        if table.is_empty() || table.iter().any(|v| v.is_null()) {
            harness_errors.push("the solo table is incomplete".into());
            for e in &harness_errors {
                println!("HARNESS-ERROR: {e}");
            }
            return 2;
        }
        std::fs::write(&table_path, serde_json::to_string(&table).unwrap()).expect("write solo table");
    }
    let replicas = per_key.values().map(|v| v.len()).max().unwrap_or(0);
    let _ = replicas;

    let (tx, rx) = mpsc::channel::<Msg>();
    let mut procs = vec![];
    for i in 0..a.children as usize {
        let mut cmd = Command::new(&exe);
        cmd.arg("child")
            .arg("--seed").arg(a.seed.to_string())
            .arg("--tier").arg(tier)
            .arg("--index").arg(i.to_string())
            .arg("--of").arg(a.children.to_string())
            .arg("--random-runs").arg(a.random_runs.to_string())
            .arg("--workload").arg(format!("{}/workload", a.verif_dir))
            .arg("--out").arg(&tmp_dir)
            .arg("--audit-every").arg(a.audit_every.to_string())
            .arg("--strata").arg(a.strata.join(","))
            .arg("--run-timeout").arg(a.run_timeout_s.to_string())
            .arg("--solo-table").arg(&table_path)
            .stdout(Stdio::piped())
            .stderr(Stdio::piped());
        let mut child = cmd.spawn().expect("spawn child");
        let so = child.stdout.take().unwrap();
        let tx2 = tx.clone();
        std::thread::spawn(move || {
            for line in BufReader::new(so).lines() {
                match line {
                    Ok(l) => {
                        let _ = tx2.send(Msg::Line(i, l));
                    }
                    Err(_) => break,
                }
            }
            let _ = tx2.send(Msg::Eof(i));
        });
        // stderr is drained so that a chatty panic cannot block the child
        let se = child.stderr.take().unwrap();
        std::thread::spawn(move || {
            let mut keep: Vec<String> = vec![];
            for line in BufReader::new(se).lines().map_while(Result::ok) {
                if keep.len() < 20 {
                    keep.push(line);
                }
            }
            keep
        });
        procs.push(child);
    }
    drop(tx);

    let n = a.children as usize;
    let mut last_progress: Vec<(String, u64, Instant)> = (0..n).map(|_| ("start".to_string(), 0, Instant::now())).collect();
    let mut done: Vec<Option<Value>> = vec![None; n];
    let mut eof = vec![false; n];
    let mut world: Option<Value> = None;
    let mut viols: Vec<Viol> = vec![];
    let mut dead: Vec<(usize, String, u64, String)> = vec![];
    let mut stopped_early = false;

    while eof.iter().any(|e| !*e) {
        match rx.recv_timeout(Duration::from_secs(1)) {
            Ok(Msg::Line(i, l)) => {
                let Ok(v) = serde_json::from_str::<Value>(&l) else { continue };
                if let Some(s) = v.get("s").and_then(|s| s.as_str()) {
                    last_progress[i] = (s.to_string(), v["run"].as_u64().unwrap_or(0), Instant::now());
                } else if v.get("world").is_some() {
                    world = Some(v["world"].clone());
                } else if let Some(x) = v.get("violation") {
                    viols.push(Viol {
                        clause: x["clause"].as_str().unwrap_or("").into(),
                        module: x["module"].as_str().unwrap_or("").into(),
                        opt: x["opt"].as_str().unwrap_or("").into(),
                        task: x["task"].as_str().unwrap_or("").into(),
                        component: x["component"].as_str().unwrap_or("").into(),
                        replay: x["replay"].as_str().unwrap_or("").into(),
                        detail: x["detail"].as_array().map(|d| d.iter().filter_map(|s| s.as_str().map(String::from)).collect()).unwrap_or_default(),
                        stratum: x["stratum"].as_str().unwrap_or("").into(),
                        minimised: x.get("minimised").cloned().unwrap_or(Value::Null),
                    });
                    last_progress[i].2 = Instant::now();
                    if a.first_only {
                        let v = viols.last().unwrap();
                        let is_known = known.iter().any(|k| k.status == "known" && class(&k.clause) == class(&v.clause) && k.module == v.module && v.component.starts_with(&k.component_prefix));
                        if !is_known {
                            for j in 0..n {
                                if done[j].is_none() {
                                    done[j] = Some(json!({"killed": true}));
                                }
                                let _ = procs[j].kill();
                            }
                            stopped_early = true;
                        }
                    }
                } else if v.get("done").is_some() {
                    done[i] = Some(v["done"].clone());
                }
            }
            Ok(Msg::Eof(i)) => {
                eof[i] = true;
                let status = procs[i].wait().ok();
                if done[i].is_none() && !stopped_early {
                    let (s, r, _) = last_progress[i].clone();
                    let why = match status {
                        Some(st) if st.code().is_none() => format!("child killed by a signal ({st})"),
                        Some(st) => format!("child exited with {st} before finishing"),
                        None => "child vanished".into(),
                    };
                    dead.push((i, s, r, why));
                }
            }
            Err(mpsc::RecvTimeoutError::Timeout) => {
                for i in 0..n {
                    if !eof[i] && done[i].is_none() && last_progress[i].2.elapsed() > Duration::from_secs((a.run_timeout_s * 10).max(600)) {
                        let (s, r, _) = last_progress[i].clone();
                        let _ = procs[i].kill();
                        dead.push((i, s, r, format!("no progress for {} s", (a.run_timeout_s * 10).max(600))));
                        last_progress[i].2 = Instant::now();
                        done[i] = Some(json!({"killed": true}));
                    }
                }
            }
            Err(mpsc::RecvTimeoutError::Disconnected) => break,
        }
    }

    // ---- children that died: T violations, replayed alone in a fresh process to confirm
    let mut dead_seen: BTreeSet<(String, u64)> = BTreeSet::new();
    for (i, s, r, why) in &dead {
        if !dead_seen.insert((s.clone(), *r)) {
            continue;
        }
        if s == "start" {
            harness_errors.push(format!("child {i} died before reporting any progress: {why}"));
            continue;
        }
        let path = format!("{tmp_dir}/C08-{}-{}-{}-death.json", a.seed, s, r);
        let st = Command::new(&exe)
            .arg("mkreplay").arg("--seed").arg(a.seed.to_string()).arg("--tier").arg(tier)
            .arg("--stratum").arg(s).arg("--run").arg(r.to_string())
            .arg("--random-runs").arg(a.random_runs.to_string())
            .arg("--workload").arg(format!("{}/workload", a.verif_dir))
            .arg("--out").arg(&path)
            .stdout(Stdio::null()).stderr(Stdio::null())
            .status();
        if !matches!(st, Ok(s) if s.success()) {
            harness_errors.push(format!("child {i} died in {s} run {r} ({why}) and no replay file could be built for it"));
            continue;
        }
        viols.push(Viol {
            clause: "T".into(),
            module: format!("{s}:{r}"),
            opt: "".into(),
            task: format!("{s}:{r}"),
            component: "process-death".into(),
            replay: path,
            detail: vec![format!("child {i} did not survive {s} run {r}: {why}")],
            stratum: s.clone(),
            minimised: Value::Null,
        });
    }

    // ---- "fresh process" clause: the solo results of every task from REPLICAS processes (different hash keys) must agree
    let solo_tables_n = crate::child::REPLICAS.min(a.children) as usize;
    let unstable: Vec<&String> = per_key.iter().filter(|(_, v)| v.len() > 1).map(|(k, _)| k).collect();
    {
        let mut seen_mod = BTreeSet::new();
        for key in unstable.iter().take(200) {
            let module = key.split('|').next().unwrap_or("").to_string();
            if !seen_mod.insert(module.clone()) || seen_mod.len() > 5 {
                continue;
            }
            let path = format!("{tmp_dir}/C08-{}-solo2-{}.json", a.seed, seen_mod.len());
            let st = Command::new(&exe)
                .arg("mkreplay").arg("--seed").arg(a.seed.to_string()).arg("--tier").arg(tier)
                .arg("--stratum").arg("solo2").arg("--task-key").arg(key.as_str())
                .arg("--workload").arg(format!("{}/workload", a.verif_dir))
                .arg("--out").arg(&path)
                .stdout(Stdio::null()).stderr(Stdio::null())
                .status();
            if !matches!(st, Ok(s) if s.success()) {
                harness_errors.push(format!("solo results of {key} differ between processes and no replay file could be built"));
                continue;
            }
            viols.push(Viol {
                clause: "D".into(),
                module,
                opt: key.split('|').nth(1).unwrap_or("").into(),
                task: key.to_string(),
                component: "fresh-process".into(),
                replay: path,
                detail: vec![format!("the result of {key} run alone differs between fresh processes (hash keys differ): {} distinct results in {} processes", per_key[*key].len(), solo_tables_n)],
                stratum: "solo".into(),
                minimised: Value::Null,
            });
        }
    }
    for p in &parse_failures {
        if p.starts_with("w2/") {
            harness_errors.push(format!("workload module does not parse: {p}"));
        }
    }

    // ---- aggregate child statistics
    let mut runs: BTreeMap<String, u64> = BTreeMap::new();
    let mut counters: BTreeMap<String, u64> = BTreeMap::new();
    let mut steps = 0u64;
    let mut tasks_compared = 0u64;
    let mut tasks_faulted = 0u64;
    let mut nontrivial_runs = 0u64;
    let mut audits = 0u64;
    let mut audit_mismatch = 0u64;
    let mut audit_soft = 0u64;
    let mut minimise_execs = 0u64;
    let mut violations_total = 0u64;
    let mut dims: BTreeMap<String, u64> = BTreeMap::new();
    let mut gen_stats: BTreeMap<String, u64> = BTreeMap::new();
    let mut skipped_after_deaths = 0u64;
    let mut deaths = 0u64;
    let mut samples: Vec<Value> = vec![];
    let mut fp_all: BTreeSet<u64> = BTreeSet::new();
    let mut fp_nontrivial: BTreeSet<u64> = BTreeSet::new();
    for d in done.iter().flatten() {
        if d.get("killed").is_some() {
            continue;
        }
        for (k, v) in d["runs"].as_object().cloned().unwrap_or_default() {
            *runs.entry(k).or_default() += v.as_u64().unwrap_or(0);
        }
        for (k, v) in d["counters"].as_object().cloned().unwrap_or_default() {
            *counters.entry(k).or_default() += v.as_u64().unwrap_or(0);
        }
        steps += d["steps"].as_u64().unwrap_or(0);
        tasks_compared += d["tasks_compared"].as_u64().unwrap_or(0);
        tasks_faulted += d["tasks_faulted"].as_u64().unwrap_or(0);
        nontrivial_runs += d["nontrivial_runs"].as_u64().unwrap_or(0);
        audits += d["audits"].as_u64().unwrap_or(0);
        audit_mismatch += d["audit_mismatch"].as_u64().unwrap_or(0);
        audit_soft += d["audit_soft"].as_u64().unwrap_or(0);
        minimise_execs += d["minimise_execs"].as_u64().unwrap_or(0);
        violations_total += d["violations_total"].as_u64().unwrap_or(0);
        skipped_after_deaths += d["skipped_after_deaths"].as_u64().unwrap_or(0);
        deaths += d["deaths"].as_u64().unwrap_or(0);
        for (k, v) in d["dims"].as_object().cloned().unwrap_or_default() {
            *dims.entry(k).or_default() += v.as_u64().unwrap_or(0);
        }
        for (k, v) in d["gen"].as_object().cloned().unwrap_or_default() {
            *gen_stats.entry(k).or_default() += v.as_u64().unwrap_or(0);
        }
        for s in d["samples"].as_array().cloned().unwrap_or_default() {
            if samples.len() < 4 {
                samples.push(s);
            }
        }
        for e in d["harness_errors"].as_array().cloned().unwrap_or_default() {
            harness_errors.push(e.as_str().unwrap_or("").to_string());
        }
        if let Some(p) = d["fingerprints"].as_str() {
            if let Ok(bytes) = std::fs::read(p) {
                for ch in bytes.chunks_exact(9) {
                    let h = u64::from_le_bytes(ch[1..9].try_into().unwrap());
                    fp_all.insert(h);
                    if ch[0] == 1 {
                        fp_nontrivial.insert(h);
                    }
                }
            }
            let _ = std::fs::remove_file(p);
        }
    }

    // ---- dedupe violations across children, confirm each in a fresh process, apply known findings
    let mut seen: BTreeSet<(String, String, String)> = BTreeSet::new();
    let mut reported: Vec<(Viol, String)> = vec![];
    let mut known_hits: Vec<String> = vec![];
    viols.sort_by(|a, b| (a.clause.clone(), a.module.clone(), a.component.clone(), a.replay.clone()).cmp(&(b.clause.clone(), b.module.clone(), b.component.clone(), b.replay.clone())));
    for v in viols {
        if !seen.insert((class(&v.clause).to_string(), crate::child::module_class(&v.module), v.component.clone())) {
            let _ = std::fs::remove_file(&v.replay);
            continue;
        }
        if let Some(k) = known.iter().find(|k| k.status == "known" && class(&k.clause) == class(&v.clause) && k.module == v.module && v.component.starts_with(&k.component_prefix)) {
            known_hits.push(format!("KNOWN-FINDING: property=C08 {}", k.what));
            let _ = std::fs::remove_file(&v.replay);
            continue;
        }
        if reported.len() >= 10 {
            let _ = std::fs::remove_file(&v.replay);
            continue;
        }
        match confirm_replay(&v.replay, Duration::from_secs(a.run_timeout_s + 60)) {
            Ok((true, _)) => {
                let fname = std::path::Path::new(&v.replay).file_name().unwrap().to_string_lossy().to_string();
                let dest = format!("{replay_dir}/{fname}");
                let _ = std::fs::rename(&v.replay, &dest);
                reported.push((v, dest));
            }
            Ok((false, out)) => {
                // The simulator is deterministic (tools/prove_determinism.sh, self-audit), so a finding that does not
                // come back under the same plan and decisions means the code under test has a source of
                // nondeterminism of its own (threads it starts itself, time, an address the layout does not pin).
                // That is C08's last sentence violated outright; it is reported if it comes back in any of 6 more replays.
                let mut hits = 0;
                let tries = 6;
                for _ in 0..tries {
                    if let Ok((true, _)) = confirm_replay(&v.replay, Duration::from_secs(a.run_timeout_s + 60)) {
                        hits += 1;
                    }
                }
                if hits > 0 {
                    let fname = std::path::Path::new(&v.replay).file_name().unwrap().to_string_lossy().to_string();
                    let dest = format!("{replay_dir}/{fname}");
                    let _ = std::fs::rename(&v.replay, &dest);
                    let mut v = v;
                    v.detail.insert(0, format!("NOTE: under the same plan and the same scheduling decisions this violation occurs in {hits} of {} replays: the code under test is nondeterministic on its own (threads it starts itself, time, addresses) - `./check C08 --replay` may need several attempts", tries + 1));
                    reported.push((v, dest));
                } else if v.component == "process-death" && v.detail.iter().any(|d| d.contains("did not finish within")) {
                    // an execution that was killed for running out of its CPU / wall-clock allowance and that finishes
                    // normally in every one of 7 replays was merely slow (a loaded or slow machine, a short leash after
                    // an earlier timeout): a real loop or deadlock comes back at any budget. Not a finding, not an error.
                    println!("NOTE: {} run {} was stopped for exceeding its time allowance and completes normally in 7 replays: not a finding", v.stratum, v.module);
                    let _ = std::fs::remove_file(&v.replay);
                } else {
                    harness_errors.push(format!("replay file {} did not reproduce its violation in a fresh process (7 attempts): {}", v.replay, out.lines().last().unwrap_or("")))
                }
            }
            Err(e) => harness_errors.push(format!("replay of {} failed: {e}", v.replay)),
        }
    }
    // a listed known finding that no longer shows up is not an error; it is just not printed

    let wall = t0.elapsed().as_secs_f64();
    let total_runs: u64 = runs.values().sum::<u64>() + solo_evals;
    let sim_runs: u64 = runs.values().sum();

    // ---- evidence
    if a.write_evidence {
        let ev = json!({
            "property_id": "C08",
            "tier": tier,
            "seed": a.seed,
            "level": "exploration",
            "coverage": {
                "evaluations": total_runs,
                "distinct_nontrivial": fp_nontrivial.len(),
                "rule": "An evaluation is one simulated execution: a list of whole-file compilations (parse > resolver > VueJsxTransformVisitor, constructed directly or through the plugin entry function > codegen) run on 1-4 worker OS threads that are released one at a time by a seeded scheduler, with faults and environment noise, every non-faulted task compared byte-for-byte (code, binding signature, diagnostics, span list) with the same task run alone; plus one evaluation per solo run of a task (each task of the fixed workload is run alone in 2-3 different child processes with different hash keys, each generated module in 2, each time in its own forked process). Executions come from eight strata: solo table x processes; systematic single-crash sweep [t crashed at step k; t or a sibling of t; u or t]; systematic single-preemption sweep (A parked at step k, B runs to completion, A resumes); A-B-A sibling sequences; duels of one module under two option sets; long single-process histories; freshly generated modules (gen); seeded random/PCT search. Two executions are the same interleaving when they have the same task list and the same sequence of (task, task-local step, site) at which control changed hands plus the same faults fired; distinct_nontrivial counts distinct interleavings among executions with at least one switch away from a still-running task or at least one fault fired. The workload is the repository fixtures + /verif/workload (fixed) + modules drawn from the run PRNG in stratum gen; the search is over schedules, faults and - in gen - the drawn modules.",
                "samples": samples,
                "strata_runs": runs,
                "runs_per_host_dimension": dims,
                "executions_that_died": deaths,
                "runs_skipped_after_repeated_deaths": skipped_after_deaths,
                "solo": {"modules": modules, "tasks": tasks_n, "processes_per_task": format!("{solo_tables_n} (2 for the twelve covering-array option sets)"), "solo_executions": solo_evals, "tasks_with_process_dependent_result": unstable.len(), "table_ms_max": solo_ms},
                "generated_workload": {"modules_generated": gen_stats.get("generated"), "of_which_tsx": gen_stats.get("ts"), "dropped_as_unparseable": gen_stats.get("unparseable"), "with_diagnostics": gen_stats.get("with_diags"), "solo_executions": gen_stats.get("solo_execs"),
                    "note": "stratum `gen`: every run draws 1-3 fresh modules and option sets from its PRNG (sim/src/gen.rs), computes their solo references in two fresh processes with different hash keys (T, R and the fresh-process clause of D on each module alone), and runs what returns next to each other and next to bystanders from the fixed workload on a randomly drawn host with faults; a violating module's text is minimised line by line and embedded in the replay file"},
                "world": world,
                "simulated_runs": sim_runs,
                "nontrivial_runs": nontrivial_runs,
                "distinct_interleavings_all": fp_all.len(),
                "tasks_compared_with_solo": tasks_compared,
                "tasks_fault_injected": tasks_faulted,
                "simulated_time": {"unit": "simulator steps (yield points); the system has no clock or timer", "steps": steps},
                "runs_per_hour": if wall > 0.0 { (sim_runs as f64 / wall * 3600.0) as u64 } else { 0 },
                "seeds_per_hour": "one seed (VERIF_SEED) per check; every run index derives its own PRNG stream from it",
                "faults_fired": {
                    "crash (hook panics at step k)": counters.get("crash_fired"),
                    "emitter_crash (diagnostics sink panics)": counters.get("emitter_crash_fired"),
                    "worker_replace": counters.get("worker_replaced"),
                    "globals_restart": counters.get("globals_restarted"),
                    "noise_marks_allocated_at_yields": counters.get("noise_marks"),
                    "holder_blocked_on_a_lock_of_a_parked_task (baton handed on)": counters.get("blocked_handoffs"),
                    "rehash": "every worker thread and every solo thread has its own seed-derived hash keys",
                },
                "probes": {
                    "live_switches": counters.get("live_switches"),
                    "live_switches_with_both_tasks_inside_the_pass": counters.get("live_switches_in_transform"),
                    "crash_then_same_worker_reused": counters.get("crash_then_same_worker_reused"),
                    "pure_comment_tasks_in_shared_store": counters.get("pure_comment_tasks_in_shared_store"),
                    "diagnostic_while_other_task_parked": counters.get("diag_while_other_parked"),
                    "budget_hook_fired (a violation detector, 0 when T holds; fires under S05/T11/T16)": counters.get("budget_fired"),
                },
                "crash_point_enumeration": {"runs": runs.get("crash"), "exhaustive": a.thorough && a.strata.iter().any(|s| s == "crash"),
                    "note": "thorough: every step of every workload task that takes fewer than 1000 steps alone (all but the few hundred variants of the dag-*/chain-* modules, for which the first two and the last occurrence of every site are used), every option set, with and without comments; quick: first two and last occurrence of every site, the module's own option set (plus all-on for the repository's fixtures and workload/state) with comments. `exhaustive` refers to that sub-space: one crash, at any such step, followed by the same task and a bystander on the same worker"},
                "self_audit": {"runs_executed_twice": audits, "event_log_mismatches": audit_mismatch, "mismatches_in_runs_where_a_task_blocked_on_a_real_lock_of_a_parked_task (timing-dependent by design, not an error)": audit_soft},
                "minimiser_executions": minimise_execs,
                "violations_before_dedup": violations_total,
                "known_findings_hit": known_hits.len(),
                "sync_instrumentation": if std::env::var("VERIF_SYNC_INSTRUMENTED").as_deref() == Ok("1") { "the code under test uses std::sync and was built from an instrumented copy: every Mutex/RwLock acquisition, OnceLock/LazyLock access and atomic operation of visitor/src and plugin/src is a yield point (sim/verif-sync)" } else { "not needed: the code under test does not use std::sync (or the instrumented copy did not build)" },
                "plugin_entry": if crate::pipeline::PLUGIN_ENTRY_COMPILED { "real code: /repo/plugin/src/lib.rs, compiled natively against a shim of swc_core::plugin (attribute macro, metadata and comments proxies are plain values filled in by the simulated host); every run whose host deserialises the configuration per file goes through it" } else { "stub: /repo/plugin/src/lib.rs did not compile against the native shim in this run; its two statements (config string -> Options -> one pass) are re-expressed natively" },
                "real_code": ["swc-vue-jsx-visitor (whole crate, /repo working tree, feature verif-hooks)", "Options deserialisation (serde_json::from_str::<Options>)", "swc_ecma_parser", "swc_ecma_transforms_base::resolver", "swc_ecma_codegen", "swc_common::{Globals, SourceMap, SingleThreadedComments, Handler}", "std RandomState", "hstr atom store"],
                "stubbed": ["host thread pool + scheduler (the simulator)", "shared comments store (Mutex<BTreeMap> implementation of the Comments trait)", "diagnostics Emitter", "getrandom (seed-derived)", "swc_core::plugin (the #[plugin_transform] macro and the host-call proxies TransformPluginProgramMetadata / PluginCommentsProxy): native stand-ins, the WASM export and its host imports cannot run here"],
            },
            "assumptions": [
                "totality (T) is decided on the fixed workload and sampled on the modules stratum gen draws; it is not decided over the input space",
                "stack depth as a resource is not modelled; recursion through hooked functions is bounded by a step budget instead",
                "the address space is pinned (no ASLR, every execution forked from one memory image, threads started one at a time): address-dependent behaviour replays exactly, but only the heap layouts the explored plans produce are seen",
                "worker stacks of 2 MiB are assumed sufficient for legitimate recursion (every workload task survives 1 MiB on the unchanged tree)",
                "each execution is limited to its CPU-time budget, 4x that + 10 s of wall-clock time and 2.5 GiB of address space; exceeding any of them is a T violation",
                "the simulator's own determinism is checked by executing a sample of runs twice (self_audit)"
            ],
            "wall_s": wall,
            "violations": reported.len(),
        });
        let _ = std::fs::create_dir_all(format!("{}/evidence", a.verif_dir));
        std::fs::write(format!("{}/evidence/C08.json", a.verif_dir), serde_json::to_string_pretty(&ev).unwrap()).expect("write evidence");
    }
    let _ = std::fs::remove_dir_all(&tmp_dir);

    if stopped_early {
        println!("(stopped at the first violation: --first-only)");
    }
    println!(
        "runs: {:?}  solo: {} tasks x {} processes  steps: {}  distinct non-trivial interleavings: {}  compared: {}  faulted: {}  wall: {:.1}s",
        runs, tasks_n, solo_tables_n, steps, fp_nontrivial.len(), tasks_compared, tasks_faulted, wall
    );
    for k in &known_hits {
        println!("{k}");
    }
    for (v, path) in &reported {
        println!("--- {} violated by {} [{}] ({}), found in stratum {}", v.clause, v.module, v.opt, v.component, v.stratum);
        for d in v.detail.iter().take(6) {
            println!("    {d}");
        }
        if !v.minimised.is_null() {
            println!("    minimised to {}", v.minimised);
        }
        println!("VIOLATION property=C08 replay={path}");
    }
    if !harness_errors.is_empty() {
        harness_errors.sort();
        harness_errors.dedup();
        for e in harness_errors.iter().take(20) {
            println!("HARNESS-ERROR: {e}");
        }
    }
    if !reported.is_empty() {
        1
    } else if !harness_errors.is_empty() {
        2
    } else {
        if known_hits.is_empty() {
            println!("C08 held on everything explored");
        } else {
            println!("C08 held on everything explored, apart from the known finding(s) listed above");
        }
        0
    }
}
