//! The seams the simulator owns: hash keys (`getrandom`), the yield hook compiled
//! into the visitor, the comments store, the diagnostics emitter, the panic hook.

use crate::rng::mix;
use crate::sched::Sim;
use std::cell::{Cell, RefCell};
use std::collections::BTreeMap;
use std::sync::{Arc, Mutex};
use swc_core::common::{
    comments::{Comment, CommentKind, Comments, SingleThreadedComments},
    errors::{DiagnosticBuilder, Emitter},
    BytePos, Mark, SyntaxContext, DUMMY_SP,
};

// ------------------------------------------------------------------ getrandom (S5)

thread_local! {
    /// Seed of this thread's hash keys. Set by the simulator before the thread does
    /// anything else; 0 = not a simulator thread (process constant is used).
    static KEYSEED: Cell<u64> = const { Cell::new(0) };
    static KEYCALLS: Cell<u64> = const { Cell::new(0) };
}

pub fn set_thread_keyseed(seed: u64) {
    KEYSEED.with(|k| k.set(seed | 1));
    KEYCALLS.with(|k| k.set(0));
}

/// `std` looks `getrandom` up weakly (so that it can fall back to the raw syscall on
/// old libcs); defining it in the binary makes every `RandomState` key of every thread
/// a pure function of the seed the simulator gave that thread.
#[no_mangle]
pub unsafe extern "C" fn getrandom(buf: *mut u8, len: usize, _flags: u32) -> isize {
    let seed = KEYSEED.try_with(|k| k.get()).unwrap_or(0);
    let calls = KEYCALLS
        .try_with(|k| {
            let c = k.get();
            k.set(c + 1);
            c
        })
        .unwrap_or(0);
    let mut x = mix(seed ^ 0x5EED_0000_0000_0000).wrapping_add(calls.wrapping_mul(0xD1B5_4A32_D192_ED03));
    for i in 0..len {
        if i % 8 == 0 {
            x = mix(x.wrapping_add(0x9E37_79B9_7F4A_7C15));
        }
        *buf.add(i) = (x >> ((i % 8) * 8)) as u8;
    }
    len as isize
}

/// Harness self-test: same key seed => same iteration order of a std HashSet on two
/// fresh threads; different key seed => (very probably) a different order.
pub fn getrandom_seam_effective() -> bool {
    fn order(seed: u64) -> Vec<u32> {
        std::thread::spawn(move || {
            set_thread_keyseed(seed);
            let s: std::collections::HashSet<u32> = (0..64).collect();
            s.into_iter().collect::<Vec<_>>()
        })
        .join()
        .unwrap()
    }
    let a = order(11);
    let b = order(11);
    let c = order(12);
    let d = order(13);
    a == b && (a != c || a != d)
}

// ------------------------------------------------------------------ per-task context

#[derive(Clone, Copy, PartialEq, Eq, Debug)]
pub enum Phase {
    Setup,
    Parse,
    Resolve,
    Transform,
    Print,
}

pub struct Crash; // injected crash payload
pub struct BudgetExceeded; // step budget payload

pub struct TaskCtx {
    pub worker: u8,
    pub task: u16,
    pub steps: u32,
    pub budget: u32,
    pub crash_at: Option<u32>,
    pub emitter_crash_at: Option<u32>,
    pub diags_seen: u32,
    pub phase: Phase,
    pub yield_marks: u8,
    pub noise_seed: u64,
    pub sim: Option<Arc<Sim>>,
    /// sites hit, in order (kept for solo runs: tags and step counts)
    pub sites: Option<Vec<&'static str>>,
    pub crash_fired: bool,
    pub budget_fired: bool,
    pub marks_allocated_at_yields: u32,
    pub hit_pure: bool,
    /// where the diagnostics of the file being compiled go when the host's `Handler` is shared by
    /// all files (sink, start position of the file)
    pub diag_sink: Option<(Arc<Mutex<Vec<String>>>, u32)>,
}

thread_local! {
    pub static CTX: RefCell<Option<TaskCtx>> = const { RefCell::new(None) };
    static LAST_PANIC: RefCell<Option<String>> = const { RefCell::new(None) };
    /// atoms interned as noise stay alive for the life of the worker thread
    pub static NOISE_ATOMS: RefCell<Vec<swc_core::ecma::atoms::Atom>> = const { RefCell::new(Vec::new()) };
    /// heap blocks allocated as noise stay alive for the life of the worker thread
    pub static NOISE_HEAP: RefCell<Vec<Vec<u8>>> = const { RefCell::new(Vec::new()) };
}

pub fn set_phase(p: Phase) {
    CTX.with(|c| {
        if let Some(c) = c.borrow_mut().as_mut() {
            c.phase = p
        }
    });
}

/// The function installed into `swc_vue_jsx_visitor::verif_hooks`, and called by the
/// simulator's own seams. One call = one simulator step = one scheduling decision
/// point = one possible crash point.
pub fn yield_point(site: &'static str) {
    enum Do {
        Nothing,
        Crash,
        Budget,
        Yield(Arc<Sim>, u8, u16, u32, u32),
    }
    let what = CTX.with(|c| {
        let mut c = c.borrow_mut();
        let Some(c) = c.as_mut() else { return Do::Nothing };
        c.steps += 1;
        if let Some(s) = c.sites.as_mut() {
            s.push(site);
        }
        if site == "c.add_pure_comment" {
            c.hit_pure = true;
        }
        // a planted crash stands for a panic somewhere in the pass. The yield points in front of lock / once /
        // atomic operations (instrumented builds only, sites `sync.*`) often sit inside a critical section of
        // the code under test, where nothing can really panic: a crash due there fires at the next ordinary site
        if let Some(k) = c.crash_at {
            if !c.crash_fired && c.steps >= k && !site.starts_with("sync.") {
                c.crash_fired = true;
                return Do::Crash;
            }
        }
        if c.steps > c.budget {
            c.budget_fired = true;
            return Do::Budget;
        }
        let mut noise = 0;
        if c.yield_marks > 0 {
            noise = (mix(c.noise_seed ^ (c.steps as u64)) % (c.yield_marks as u64 + 1)) as u32;
            c.marks_allocated_at_yields += noise;
        }
        match &c.sim {
            Some(sim) => Do::Yield(sim.clone(), c.worker, c.task, c.steps, noise),
            None => Do::Nothing,
        }
    });
    match what {
        Do::Nothing => {}
        Do::Crash => std::panic::panic_any(Crash),
        Do::Budget => std::panic::panic_any(BudgetExceeded),
        Do::Yield(sim, w, t, step, noise) => {
            // legal environment noise: somebody else in the host allocated marks
            for i in 0..noise {
                let m = Mark::new();
                if (step + i) % 2 == 0 {
                    let _ = SyntaxContext::empty().apply_mark(m);
                }
            }
            sim.yield_from_worker(w, t, step, site);
        }
    }
}

// ------------------------------------------------------------------ panic hook

pub fn install_panic_hook() {
    std::panic::set_hook(Box::new(|info| {
        let p = info.payload();
        if p.is::<Crash>() || p.is::<BudgetExceeded>() {
            return;
        }
        let msg = if let Some(s) = p.downcast_ref::<&str>() {
            s.to_string()
        } else if let Some(s) = p.downcast_ref::<String>() {
            s.clone()
        } else {
            "<non-string payload>".to_string()
        };
        let loc = info
            .location()
            .map(|l| {
                // keep only the path inside the crate so that results do not depend on where /repo lives
                let f = l.file();
                let f = f.rsplit_once("visitor/src/").map(|x| x.1).unwrap_or(f);
                format!("{}:{}", f, l.line())
            })
            .unwrap_or_default();
        let in_task = CTX.with(|c| c.try_borrow().map(|c| c.is_some()).unwrap_or(true));
        if in_task {
            LAST_PANIC.with(|l| *l.borrow_mut() = Some(format!("{msg} @ {loc}")));
        } else {
            eprintln!("simulator panic: {msg} @ {loc}");
        }
    }));
}

pub fn take_last_panic() -> Option<String> {
    LAST_PANIC.with(|l| l.borrow_mut().take())
}

// ------------------------------------------------------------------ diagnostics emitter (S4)

pub struct CollectEmitter {
    pub out: Arc<Mutex<Vec<String>>>,
    pub file_start: u32,
}

impl Emitter for CollectEmitter {
    fn emit(&mut self, db: &DiagnosticBuilder<'_>) {
        let crash = CTX.with(|c| {
            let mut c = c.borrow_mut();
            if let Some(c) = c.as_mut() {
                c.diags_seen += 1;
                if c.emitter_crash_at == Some(c.diags_seen) {
                    c.crash_fired = true;
                    return true;
                }
            }
            false
        });
        if crash {
            std::panic::panic_any(Crash);
        }
        yield_point("diag");
        let sp = db
            .span
            .primary_span()
            .map(|s| {
                if s.is_dummy() {
                    // DUMMY_SP is not a position in any file; making it file-relative would leak the file's offset
                    "dummy".to_string()
                } else {
                    format!("{}..{}", s.lo.0 as i64 - self.file_start as i64, s.hi.0 as i64 - self.file_start as i64)
                }
            })
            .unwrap_or_else(|| "-".into());
        self.out.lock().unwrap().push(format!("{:?}: {} @{}", db.level, db.message(), sp));
    }
}

/// The emitter behind a `Handler` that the host shares between all files (one long-lived
/// compiler instance printing to one place): it files each diagnostic under the file that is
/// being compiled on the calling thread.
pub struct RoutingEmitter;

impl Emitter for RoutingEmitter {
    fn emit(&mut self, db: &DiagnosticBuilder<'_>) {
        let sink = CTX.with(|c| c.borrow().as_ref().and_then(|c| c.diag_sink.clone()));
        if let Some((out, file_start)) = sink {
            CollectEmitter { out, file_start }.emit(db);
        }
    }
}

// ------------------------------------------------------------------ comments store (S3)

type CMap = BTreeMap<u32, Vec<Comment>>;

/// A thread-safe comments store shared by every file of one compiler instance, with the
/// documented semantics of `swc_common::comments::Comments`. (Stub for what native hosts
/// and the WASM host provide.)
#[derive(Clone, Default)]
pub struct SharedComments {
    leading: Arc<Mutex<CMap>>,
    trailing: Arc<Mutex<CMap>>,
}

impl SharedComments {
    pub fn len(&self) -> usize {
        self.leading.lock().unwrap().len() + self.trailing.lock().unwrap().len()
    }
}

fn pure_comment() -> Comment {
    Comment { kind: CommentKind::Block, span: DUMMY_SP, text: "#__PURE__".into() }
}

impl Comments for SharedComments {
    fn add_leading(&self, pos: BytePos, cmt: Comment) {
        self.leading.lock().unwrap().entry(pos.0).or_default().push(cmt)
    }
    fn add_leading_comments(&self, pos: BytePos, comments: Vec<Comment>) {
        self.leading.lock().unwrap().entry(pos.0).or_default().extend(comments)
    }
    fn has_leading(&self, pos: BytePos) -> bool {
        self.leading.lock().unwrap().get(&pos.0).map(|v| !v.is_empty()).unwrap_or(false)
    }
    fn move_leading(&self, from: BytePos, to: BytePos) {
        let mut m = self.leading.lock().unwrap();
        if let Some(c) = m.remove(&from.0) {
            m.entry(to.0).or_default().extend(c)
        }
    }
    fn take_leading(&self, pos: BytePos) -> Option<Vec<Comment>> {
        self.leading.lock().unwrap().remove(&pos.0)
    }
    fn get_leading(&self, pos: BytePos) -> Option<Vec<Comment>> {
        self.leading.lock().unwrap().get(&pos.0).cloned()
    }
    fn add_trailing(&self, pos: BytePos, cmt: Comment) {
        self.trailing.lock().unwrap().entry(pos.0).or_default().push(cmt)
    }
    fn add_trailing_comments(&self, pos: BytePos, comments: Vec<Comment>) {
        self.trailing.lock().unwrap().entry(pos.0).or_default().extend(comments)
    }
    fn has_trailing(&self, pos: BytePos) -> bool {
        self.trailing.lock().unwrap().get(&pos.0).map(|v| !v.is_empty()).unwrap_or(false)
    }
    fn move_trailing(&self, from: BytePos, to: BytePos) {
        let mut m = self.trailing.lock().unwrap();
        if let Some(c) = m.remove(&from.0) {
            m.entry(to.0).or_default().extend(c)
        }
    }
    fn take_trailing(&self, pos: BytePos) -> Option<Vec<Comment>> {
        self.trailing.lock().unwrap().remove(&pos.0)
    }
    fn get_trailing(&self, pos: BytePos) -> Option<Vec<Comment>> {
        self.trailing.lock().unwrap().get(&pos.0).cloned()
    }
    fn add_pure_comment(&self, pos: BytePos) {
        assert_ne!(pos, BytePos(0), "cannot add pure comment to zero position");
        let mut m = self.leading.lock().unwrap();
        let leading = m.entry(pos.0).or_default();
        let pure = pure_comment();
        if !leading.iter().any(|c| c.text == pure.text) {
            leading.push(pure);
        }
    }
}

/// What the pass is handed as `C: Comments`: either implementation, with a yield at the
/// entry of every call made while the pass is running.
#[derive(Clone)]
pub enum AnyComments {
    Single(SingleThreadedComments),
    Shared(SharedComments),
}

fn seam(site: &'static str) {
    let in_transform = CTX.with(|c| c.borrow().as_ref().map(|c| c.phase == Phase::Transform).unwrap_or(false));
    if in_transform {
        yield_point(site);
    }
}

macro_rules! both {
    ($self:ident, $c:ident => $e:expr) => {
        match $self {
            AnyComments::Single($c) => $e,
            AnyComments::Shared($c) => $e,
        }
    };
}

impl Comments for AnyComments {
    fn add_leading(&self, pos: BytePos, cmt: Comment) {
        seam("c.add_leading");
        both!(self, c => c.add_leading(pos, cmt))
    }
    fn add_leading_comments(&self, pos: BytePos, comments: Vec<Comment>) {
        seam("c.add_leading_comments");
        both!(self, c => c.add_leading_comments(pos, comments))
    }
    fn has_leading(&self, pos: BytePos) -> bool {
        seam("c.has_leading");
        both!(self, c => c.has_leading(pos))
    }
    fn move_leading(&self, from: BytePos, to: BytePos) {
        seam("c.move_leading");
        both!(self, c => c.move_leading(from, to))
    }
    fn take_leading(&self, pos: BytePos) -> Option<Vec<Comment>> {
        seam("c.take_leading");
        both!(self, c => c.take_leading(pos))
    }
    fn get_leading(&self, pos: BytePos) -> Option<Vec<Comment>> {
        seam("c.get_leading");
        both!(self, c => c.get_leading(pos))
    }
    fn add_trailing(&self, pos: BytePos, cmt: Comment) {
        seam("c.add_trailing");
        both!(self, c => c.add_trailing(pos, cmt))
    }
    fn add_trailing_comments(&self, pos: BytePos, comments: Vec<Comment>) {
        seam("c.add_trailing_comments");
        both!(self, c => c.add_trailing_comments(pos, comments))
    }
    fn has_trailing(&self, pos: BytePos) -> bool {
        seam("c.has_trailing");
        both!(self, c => c.has_trailing(pos))
    }
    fn move_trailing(&self, from: BytePos, to: BytePos) {
        seam("c.move_trailing");
        both!(self, c => c.move_trailing(from, to))
    }
    fn take_trailing(&self, pos: BytePos) -> Option<Vec<Comment>> {
        seam("c.take_trailing");
        both!(self, c => c.take_trailing(pos))
    }
    fn get_trailing(&self, pos: BytePos) -> Option<Vec<Comment>> {
        seam("c.get_trailing");
        both!(self, c => c.get_trailing(pos))
    }
    fn add_pure_comment(&self, pos: BytePos) {
        seam("c.add_pure_comment");
        both!(self, c => c.add_pure_comment(pos))
    }
    // with_leading: `SingleThreadedComments` has its own in-place body (what the test
    // harness gives the pass); the shared store uses the trait's default body (take, call,
    // put back) over the calls above, which is what `PluginCommentsProxy` and any
    // third-party store give the pass.
    // with_trailing / has_flag likewise (added after S68: the trait's default `has_flag` is NOT read-only - it takes
    // the leading comments and puts them back as TRAILING ones - while `SingleThreadedComments` overrides it with
    // a plain lookup; the real `PluginCommentsProxy` inherits the default)
    fn with_trailing<F, Ret>(&self, pos: BytePos, f: F) -> Ret
    where
        Self: Sized,
        F: FnOnce(&[Comment]) -> Ret,
    {
        match self {
            AnyComments::Single(c) => {
                seam("c.with_trailing");
                c.with_trailing(pos, f)
            }
            AnyComments::Shared(_) => RequiredOnly(self).with_trailing(pos, f),
        }
    }
    fn has_flag(&self, lo: BytePos, flag: &str) -> bool {
        match self {
            AnyComments::Single(c) => {
                seam("c.has_flag");
                c.has_flag(lo, flag)
            }
            AnyComments::Shared(_) => RequiredOnly(self).has_flag(lo, flag),
        }
    }
    fn with_leading<F, Ret>(&self, pos: BytePos, f: F) -> Ret
    where
        Self: Sized,
        F: FnOnce(&[Comment]) -> Ret,
    {
        match self {
            AnyComments::Single(c) => {
                seam("c.with_leading");
                c.with_leading(pos, f)
            }
            AnyComments::Shared(_) => {
                let cmts = self.take_leading(pos);
                let ret = if let Some(cmts) = &cmts { f(cmts) } else { f(&[]) };
                if let Some(cmts) = cmts {
                    self.add_leading_comments(pos, cmts);
                }
                ret
            }
        }
    }
}

/// A store seen through the REQUIRED methods of `Comments` only: the defaulted ones (`with_leading`,
/// `with_trailing`, `has_flag`) are then swc_common's own default bodies, as for any third-party store.
struct RequiredOnly<'a>(&'a AnyComments);

impl Comments for RequiredOnly<'_> {
    fn add_leading(&self, pos: BytePos, cmt: Comment) {
        self.0.add_leading(pos, cmt)
    }
    fn add_leading_comments(&self, pos: BytePos, comments: Vec<Comment>) {
        self.0.add_leading_comments(pos, comments)
    }
    fn has_leading(&self, pos: BytePos) -> bool {
        self.0.has_leading(pos)
    }
    fn move_leading(&self, from: BytePos, to: BytePos) {
        self.0.move_leading(from, to)
    }
    fn take_leading(&self, pos: BytePos) -> Option<Vec<Comment>> {
        self.0.take_leading(pos)
    }
    fn get_leading(&self, pos: BytePos) -> Option<Vec<Comment>> {
        self.0.get_leading(pos)
    }
    fn add_trailing(&self, pos: BytePos, cmt: Comment) {
        self.0.add_trailing(pos, cmt)
    }
    fn add_trailing_comments(&self, pos: BytePos, comments: Vec<Comment>) {
        self.0.add_trailing_comments(pos, comments)
    }
    fn has_trailing(&self, pos: BytePos) -> bool {
        self.0.has_trailing(pos)
    }
    fn move_trailing(&self, from: BytePos, to: BytePos) {
        self.0.move_trailing(from, to)
    }
    fn take_trailing(&self, pos: BytePos) -> Option<Vec<Comment>> {
        self.0.take_trailing(pos)
    }
    fn get_trailing(&self, pos: BytePos) -> Option<Vec<Comment>> {
        self.0.get_trailing(pos)
    }
    fn add_pure_comment(&self, pos: BytePos) {
        self.0.add_pure_comment(pos)
    }
}
