//! SplitMix64: the only source of randomness in the simulator. Everything a run
//! decides is drawn from one of these, seeded from `VERIF_SEED` and the run index.

#[derive(Clone, Debug)]
pub struct Rng(pub u64);

impl Rng {
    pub fn new(seed: u64) -> Self {
        Rng(seed)
    }
    pub fn next(&mut self) -> u64 {
        self.0 = self.0.wrapping_add(0x9E37_79B9_7F4A_7C15);
        mix(self.0)
    }
    /// uniform in 0..n (n > 0)
    pub fn below(&mut self, n: usize) -> usize {
        debug_assert!(n > 0);
        (self.next() % n as u64) as usize
    }
    /// true with probability pct/100
    pub fn chance(&mut self, pct: u32) -> bool {
        (self.next() % 100) < pct as u64
    }
    pub fn fork(&mut self) -> Rng {
        Rng(self.next())
    }
}

pub fn mix(mut z: u64) -> u64 {
    z = (z ^ (z >> 30)).wrapping_mul(0xBF58_476D_1CE4_E5B9);
    z = (z ^ (z >> 27)).wrapping_mul(0x94D0_49BB_1331_11EB);
    z ^ (z >> 31)
}

/// FNV-1a, used for event-log / interleaving fingerprints (stable across processes).
#[derive(Clone, Copy)]
pub struct Fnv(pub u64);
impl Default for Fnv {
    fn default() -> Self {
        Fnv(0xcbf2_9ce4_8422_2325)
    }
}
impl Fnv {
    pub fn bytes(&mut self, b: &[u8]) {
        for x in b {
            self.0 ^= *x as u64;
            self.0 = self.0.wrapping_mul(0x0000_0100_0000_01B3);
        }
    }
    pub fn str(&mut self, s: &str) {
        self.bytes(s.as_bytes());
        self.bytes(&[0xff]);
    }
    pub fn u64(&mut self, v: u64) {
        self.bytes(&v.to_le_bytes());
    }
}
pub fn fnv_str(s: &str) -> u64 {
    let mut f = Fnv::default();
    f.str(s);
    f.0
}
