//! The plugin's entry point (`/repo/plugin/src/lib.rs`), compiled for the native target.
//! Real code: every line of that file. Stubbed: `swc_core::plugin::*` - the attribute macro
//! (leaves the function alone instead of wrapping it in WASM exports) and the metadata /
//! comments proxies, which here are plain values filled in by the simulated host instead of
//! host calls across the WASM boundary.

#![allow(clippy::all)]

pub mod shim {
    use real_swc_core::common::{
        comments::{Comment, Comments},
        BytePos, Mark,
    };
    use std::rc::Rc;

    /// What `swc_core::plugin::proxies::PluginCommentsProxy` is to a plugin: an implementation of
    /// `Comments` whose required methods are host calls. The defaulted methods (`with_leading`,
    /// `with_trailing`, `has_flag`) are NOT forwarded - the real proxy does not override them
    /// either, so the pass gets the trait's take-and-put-back versions, as in the WASM build.
    #[derive(Clone)]
    pub struct PluginCommentsProxy(pub Rc<dyn Comments>);

    impl std::fmt::Debug for PluginCommentsProxy {
        fn fmt(&self, f: &mut std::fmt::Formatter<'_>) -> std::fmt::Result {
            f.write_str("PluginCommentsProxy")
        }
    }

    impl Comments for PluginCommentsProxy {
        fn add_leading(&self, pos: BytePos, cmt: Comment) {
            self.0.add_leading(pos, cmt)
        }
        fn add_leading_comments(&self, pos: BytePos, comments: Vec<Comment>) {
            self.0.add_leading_comments(pos, comments)
        }
        fn has_leading(&self, pos: BytePos) -> bool {
            self.0.has_leading(pos)
        }
        fn move_leading(&self, from: BytePos, to: BytePos) {
            self.0.move_leading(from, to)
        }
        fn take_leading(&self, pos: BytePos) -> Option<Vec<Comment>> {
            self.0.take_leading(pos)
        }
        fn get_leading(&self, pos: BytePos) -> Option<Vec<Comment>> {
            self.0.get_leading(pos)
        }
        fn add_trailing(&self, pos: BytePos, cmt: Comment) {
            self.0.add_trailing(pos, cmt)
        }
        fn add_trailing_comments(&self, pos: BytePos, comments: Vec<Comment>) {
            self.0.add_trailing_comments(pos, comments)
        }
        fn has_trailing(&self, pos: BytePos) -> bool {
            self.0.has_trailing(pos)
        }
        fn move_trailing(&self, from: BytePos, to: BytePos) {
            self.0.move_trailing(from, to)
        }
        fn take_trailing(&self, pos: BytePos) -> Option<Vec<Comment>> {
            self.0.take_trailing(pos)
        }
        fn get_trailing(&self, pos: BytePos) -> Option<Vec<Comment>> {
            self.0.get_trailing(pos)
        }
        fn add_pure_comment(&self, pos: BytePos) {
            self.0.add_pure_comment(pos)
        }
    }

    #[derive(Clone, Debug, Default)]
    pub struct PluginSourceMapProxy {
        pub file_name: Option<String>,
    }

    #[derive(Clone, Copy, Debug, PartialEq, Eq)]
    pub enum TransformPluginMetadataContextKind {
        Filename = 1,
        Env = 2,
        Cwd = 3,
    }

    #[derive(Debug)]
    pub struct TransformPluginProgramMetadata {
        pub comments: Option<PluginCommentsProxy>,
        pub source_map: PluginSourceMapProxy,
        pub unresolved_mark: Mark,
        /// what the host answers to `__get_transform_plugin_config` (None: the plugin was given no configuration)
        pub config: Option<String>,
    }

    impl TransformPluginProgramMetadata {
        pub fn get_transform_plugin_config(&self) -> Option<String> {
            self.config.clone()
        }
        pub fn get_context(&self, key: &TransformPluginMetadataContextKind) -> Option<String> {
            match key {
                TransformPluginMetadataContextKind::Filename => self.source_map.file_name.clone(),
                TransformPluginMetadataContextKind::Env => Some("development".to_string()),
                TransformPluginMetadataContextKind::Cwd => Some("/".to_string()),
            }
        }
        pub fn get_experimental_context(&self, _key: &str) -> Option<String> {
            None
        }
    }
}

/// What `plugin/src/lib.rs` sees under the name `swc_core`.
#[allow(unused_imports)]
mod swc_core {
    pub use real_swc_core::{common, ecma};
    pub mod plugin {
        pub use verif_noop_attr::plugin_transform;
        pub mod proxies {
            pub use crate::shim::{PluginCommentsProxy, PluginSourceMapProxy, TransformPluginProgramMetadata};
        }
        pub mod metadata {
            pub use crate::shim::{TransformPluginMetadataContextKind, TransformPluginProgramMetadata};
        }
        pub mod errors {
            pub use real_swc_core::common::errors::HANDLER;
        }
    }
}

#[allow(unused_imports, dead_code)]
mod entry {
    use super::swc_core;
    include!(concat!(env!("OUT_DIR"), "/plugin_entry.rs"));
}

include!(concat!(env!("OUT_DIR"), "/entry_name.rs"));
