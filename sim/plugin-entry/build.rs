use std::{env, fs, path::PathBuf};

fn main() {
    // `.repo` next to this crate's parent manifest is a symlink to the repository (./check points it at ${VERIF_REPO:-/repo})
    let repo = format!("{}/../.repo", env::var("CARGO_MANIFEST_DIR").unwrap());
    let src = format!("{repo}/plugin/src/lib.rs");
    println!("cargo:rerun-if-changed={src}");
    let text = fs::read_to_string(&src).unwrap_or_else(|e| panic!("{src}: {e}"));
    // inner attributes are not allowed in an included file
    let body: String = text.lines().filter(|l| !l.trim_start().starts_with("#![")).map(|l| format!("{l}\n")).collect();
    // the function the host calls: the one under #[plugin_transform]
    let mut name = None;
    if let Some(i) = body.find("#[plugin_transform]") {
        let rest = &body[i..];
        if let Some(j) = rest.find("fn ") {
            let id: String = rest[j + 3..].chars().take_while(|c| c.is_alphanumeric() || *c == '_').collect();
            if !id.is_empty() {
                name = Some(id);
            }
        }
    }
    let name = name.expect("plugin/src/lib.rs has no #[plugin_transform] function");
    let out = PathBuf::from(env::var("OUT_DIR").unwrap());
    fs::write(out.join("plugin_entry.rs"), body).unwrap();
    fs::write(out.join("entry_name.rs"), format!("pub use entry::{name} as plugin_transform_entry;\n")).unwrap();
}
