//! `std::sync`, with a yield point of the simulator in front of every operation at which real
//! threads can interleave. Everything not redefined here is std's own (glob re-export; an explicit
//! item shadows a glob import), guards included, so code written against `std::sync` compiles
//! unchanged after `std::sync` has been textually replaced by `::verif_sync`.

use std::fmt;
use std::sync::OnceLock as StdOnceLock;

pub use std::sync::*;

static HOOK: StdOnceLock<fn(&'static str)> = StdOnceLock::new();

/// Installed once by the simulator (the same function as the visitor's `verif_hooks`).
pub fn install(f: fn(&'static str)) {
    let _ = HOOK.set(f);
}

#[inline]
fn point(site: &'static str) {
    // never from a destructor that runs during unwinding: a planted crash there would abort the process
    if std::thread::panicking() {
        return;
    }
    if let Some(f) = HOOK.get() {
        f(site)
    }
}

// ------------------------------------------------------------------ Mutex

pub struct Mutex<T: ?Sized>(std::sync::Mutex<T>);

impl<T> Mutex<T> {
    pub const fn new(t: T) -> Self {
        Mutex(std::sync::Mutex::new(t))
    }
    pub fn into_inner(self) -> LockResult<T> {
        self.0.into_inner()
    }
}
impl<T: ?Sized> Mutex<T> {
    pub fn lock(&self) -> LockResult<MutexGuard<'_, T>> {
        point("sync.mutex.lock");
        self.0.lock()
    }
    pub fn try_lock(&self) -> TryLockResult<MutexGuard<'_, T>> {
        point("sync.mutex.try_lock");
        self.0.try_lock()
    }
    pub fn is_poisoned(&self) -> bool {
        self.0.is_poisoned()
    }
    pub fn clear_poison(&self) {
        self.0.clear_poison()
    }
    pub fn get_mut(&mut self) -> LockResult<&mut T> {
        self.0.get_mut()
    }
}
impl<T: Default> Default for Mutex<T> {
    fn default() -> Self {
        Mutex::new(T::default())
    }
}
impl<T> From<T> for Mutex<T> {
    fn from(t: T) -> Self {
        Mutex::new(t)
    }
}
impl<T: ?Sized + fmt::Debug> fmt::Debug for Mutex<T> {
    fn fmt(&self, f: &mut fmt::Formatter<'_>) -> fmt::Result {
        self.0.fmt(f)
    }
}

// ------------------------------------------------------------------ RwLock

pub struct RwLock<T: ?Sized>(std::sync::RwLock<T>);

impl<T> RwLock<T> {
    pub const fn new(t: T) -> Self {
        RwLock(std::sync::RwLock::new(t))
    }
    pub fn into_inner(self) -> LockResult<T> {
        self.0.into_inner()
    }
}
impl<T: ?Sized> RwLock<T> {
    pub fn read(&self) -> LockResult<RwLockReadGuard<'_, T>> {
        point("sync.rwlock.read");
        self.0.read()
    }
    pub fn write(&self) -> LockResult<RwLockWriteGuard<'_, T>> {
        point("sync.rwlock.write");
        self.0.write()
    }
    pub fn try_read(&self) -> TryLockResult<RwLockReadGuard<'_, T>> {
        point("sync.rwlock.try_read");
        self.0.try_read()
    }
    pub fn try_write(&self) -> TryLockResult<RwLockWriteGuard<'_, T>> {
        point("sync.rwlock.try_write");
        self.0.try_write()
    }
    pub fn is_poisoned(&self) -> bool {
        self.0.is_poisoned()
    }
    pub fn clear_poison(&self) {
        self.0.clear_poison()
    }
    pub fn get_mut(&mut self) -> LockResult<&mut T> {
        self.0.get_mut()
    }
}
impl<T: Default> Default for RwLock<T> {
    fn default() -> Self {
        RwLock::new(T::default())
    }
}
impl<T> From<T> for RwLock<T> {
    fn from(t: T) -> Self {
        RwLock::new(t)
    }
}
impl<T: ?Sized + fmt::Debug> fmt::Debug for RwLock<T> {
    fn fmt(&self, f: &mut fmt::Formatter<'_>) -> fmt::Result {
        self.0.fmt(f)
    }
}

// ------------------------------------------------------------------ OnceLock / LazyLock

pub struct OnceLock<T>(std::sync::OnceLock<T>);

impl<T> OnceLock<T> {
    pub const fn new() -> Self {
        OnceLock(std::sync::OnceLock::new())
    }
    pub fn get(&self) -> Option<&T> {
        point("sync.oncelock.get");
        self.0.get()
    }
    pub fn get_mut(&mut self) -> Option<&mut T> {
        self.0.get_mut()
    }
    pub fn set(&self, value: T) -> Result<(), T> {
        point("sync.oncelock.set");
        self.0.set(value)
    }
    pub fn get_or_init<F: FnOnce() -> T>(&self, f: F) -> &T {
        point("sync.oncelock.get_or_init");
        self.0.get_or_init(f)
    }
    pub fn into_inner(self) -> Option<T> {
        self.0.into_inner()
    }
    pub fn take(&mut self) -> Option<T> {
        self.0.take()
    }
}
impl<T> Default for OnceLock<T> {
    fn default() -> Self {
        OnceLock::new()
    }
}
impl<T: fmt::Debug> fmt::Debug for OnceLock<T> {
    fn fmt(&self, f: &mut fmt::Formatter<'_>) -> fmt::Result {
        self.0.fmt(f)
    }
}
impl<T: Clone> Clone for OnceLock<T> {
    fn clone(&self) -> Self {
        OnceLock(self.0.clone())
    }
}
impl<T> From<T> for OnceLock<T> {
    fn from(t: T) -> Self {
        OnceLock(std::sync::OnceLock::from(t))
    }
}

pub struct LazyLock<T, F = fn() -> T>(std::sync::LazyLock<T, F>);

impl<T, F: FnOnce() -> T> LazyLock<T, F> {
    pub const fn new(f: F) -> Self {
        LazyLock(std::sync::LazyLock::new(f))
    }
    pub fn force(this: &LazyLock<T, F>) -> &T {
        point("sync.lazylock.force");
        std::sync::LazyLock::force(&this.0)
    }
}
impl<T, F: FnOnce() -> T> std::ops::Deref for LazyLock<T, F> {
    type Target = T;
    fn deref(&self) -> &T {
        point("sync.lazylock.deref");
        &self.0
    }
}
impl<T: fmt::Debug, F> fmt::Debug for LazyLock<T, F> {
    fn fmt(&self, f: &mut fmt::Formatter<'_>) -> fmt::Result {
        self.0.fmt(f)
    }
}

// ------------------------------------------------------------------ atomics

pub mod atomic {
    use super::point;
    pub use std::sync::atomic::*;
    use std::sync::atomic as sa;

    macro_rules! int_atomic {
        ($name:ident, $t:ty) => {
            #[derive(Debug, Default)]
            pub struct $name(sa::$name);
            impl $name {
                pub const fn new(v: $t) -> Self {
                    $name(sa::$name::new(v))
                }
                pub fn into_inner(self) -> $t {
                    self.0.into_inner()
                }
                pub fn get_mut(&mut self) -> &mut $t {
                    self.0.get_mut()
                }
                pub fn load(&self, o: Ordering) -> $t {
                    point("sync.atomic.load");
                    self.0.load(o)
                }
                pub fn store(&self, v: $t, o: Ordering) {
                    point("sync.atomic.store");
                    self.0.store(v, o)
                }
                pub fn swap(&self, v: $t, o: Ordering) -> $t {
                    point("sync.atomic.rmw");
                    self.0.swap(v, o)
                }
                pub fn compare_exchange(&self, c: $t, n: $t, s: Ordering, f: Ordering) -> Result<$t, $t> {
                    point("sync.atomic.rmw");
                    self.0.compare_exchange(c, n, s, f)
                }
                pub fn compare_exchange_weak(&self, c: $t, n: $t, s: Ordering, f: Ordering) -> Result<$t, $t> {
                    point("sync.atomic.rmw");
                    self.0.compare_exchange(c, n, s, f)
                }
                pub fn fetch_add(&self, v: $t, o: Ordering) -> $t {
                    point("sync.atomic.rmw");
                    self.0.fetch_add(v, o)
                }
                pub fn fetch_sub(&self, v: $t, o: Ordering) -> $t {
                    point("sync.atomic.rmw");
                    self.0.fetch_sub(v, o)
                }
                pub fn fetch_and(&self, v: $t, o: Ordering) -> $t {
                    point("sync.atomic.rmw");
                    self.0.fetch_and(v, o)
                }
                pub fn fetch_or(&self, v: $t, o: Ordering) -> $t {
                    point("sync.atomic.rmw");
                    self.0.fetch_or(v, o)
                }
                pub fn fetch_xor(&self, v: $t, o: Ordering) -> $t {
                    point("sync.atomic.rmw");
                    self.0.fetch_xor(v, o)
                }
                pub fn fetch_max(&self, v: $t, o: Ordering) -> $t {
                    point("sync.atomic.rmw");
                    self.0.fetch_max(v, o)
                }
                pub fn fetch_min(&self, v: $t, o: Ordering) -> $t {
                    point("sync.atomic.rmw");
                    self.0.fetch_min(v, o)
                }
                pub fn fetch_update<F: FnMut($t) -> Option<$t>>(&self, s: Ordering, f: Ordering, g: F) -> Result<$t, $t> {
                    point("sync.atomic.rmw");
                    self.0.fetch_update(s, f, g)
                }
            }
            impl From<$t> for $name {
                fn from(v: $t) -> Self {
                    $name::new(v)
                }
            }
        };
    }
    int_atomic!(AtomicU8, u8);
    int_atomic!(AtomicU16, u16);
    int_atomic!(AtomicU32, u32);
    int_atomic!(AtomicU64, u64);
    int_atomic!(AtomicUsize, usize);
    int_atomic!(AtomicI8, i8);
    int_atomic!(AtomicI16, i16);
    int_atomic!(AtomicI32, i32);
    int_atomic!(AtomicI64, i64);
    int_atomic!(AtomicIsize, isize);

    #[derive(Debug, Default)]
    pub struct AtomicBool(sa::AtomicBool);
    impl AtomicBool {
        pub const fn new(v: bool) -> Self {
            AtomicBool(sa::AtomicBool::new(v))
        }
        pub fn into_inner(self) -> bool {
            self.0.into_inner()
        }
        pub fn get_mut(&mut self) -> &mut bool {
            self.0.get_mut()
        }
        pub fn load(&self, o: Ordering) -> bool {
            point("sync.atomic.load");
            self.0.load(o)
        }
        pub fn store(&self, v: bool, o: Ordering) {
            point("sync.atomic.store");
            self.0.store(v, o)
        }
        pub fn swap(&self, v: bool, o: Ordering) -> bool {
            point("sync.atomic.rmw");
            self.0.swap(v, o)
        }
        pub fn compare_exchange(&self, c: bool, n: bool, s: Ordering, f: Ordering) -> Result<bool, bool> {
            point("sync.atomic.rmw");
            self.0.compare_exchange(c, n, s, f)
        }
        pub fn compare_exchange_weak(&self, c: bool, n: bool, s: Ordering, f: Ordering) -> Result<bool, bool> {
            point("sync.atomic.rmw");
            self.0.compare_exchange(c, n, s, f)
        }
        pub fn fetch_and(&self, v: bool, o: Ordering) -> bool {
            point("sync.atomic.rmw");
            self.0.fetch_and(v, o)
        }
        pub fn fetch_or(&self, v: bool, o: Ordering) -> bool {
            point("sync.atomic.rmw");
            self.0.fetch_or(v, o)
        }
        pub fn fetch_xor(&self, v: bool, o: Ordering) -> bool {
            point("sync.atomic.rmw");
            self.0.fetch_xor(v, o)
        }
        pub fn fetch_nand(&self, v: bool, o: Ordering) -> bool {
            point("sync.atomic.rmw");
            self.0.fetch_nand(v, o)
        }
        pub fn fetch_update<F: FnMut(bool) -> Option<bool>>(&self, s: Ordering, f: Ordering, g: F) -> Result<bool, bool> {
            point("sync.atomic.rmw");
            self.0.fetch_update(s, f, g)
        }
    }
    impl From<bool> for AtomicBool {
        fn from(v: bool) -> Self {
            AtomicBool::new(v)
        }
    }
}
