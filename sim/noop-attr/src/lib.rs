//! Stand-in for `swc_core::plugin::plugin_transform` on a native target: the real macro wraps the
//! function in WASM exports that only link against host imports; this one leaves the function
//! as it is (and makes it `pub`, so that the simulator can call it).
use proc_macro::{TokenStream, TokenTree};

#[proc_macro_attribute]
pub fn plugin_transform(_attr: TokenStream, item: TokenStream) -> TokenStream {
    let mut it = item.clone().into_iter();
    // skip outer attributes (`#` followed by a bracket group)
    let mut first = it.next();
    while let Some(TokenTree::Punct(p)) = &first {
        if p.as_char() == '#' {
            let _ = it.next();
            first = it.next();
        } else {
            break;
        }
    }
    let is_pub = matches!(&first, Some(TokenTree::Ident(i)) if i.to_string() == "pub");
    if is_pub {
        item
    } else {
        let mut out: TokenStream = "pub".parse().unwrap();
        out.extend(item);
        out
    }
}
