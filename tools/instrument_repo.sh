#!/bin/bash
# tools/instrument_repo.sh REPO DEST VERIF
# If the code under test (visitor/src, plugin/src) uses std::sync at all, makes a copy of REPO under DEST in which
# `std::sync` is textually replaced by `::verif_sync` (std::sync with a simulator yield point in front of every
# lock acquisition, once-initialisation and atomic operation; /verif/sim/verif-sync) and exits 0; exits 1 if there
# is nothing to instrument (the pinned tree: no use of std::sync anywhere). Nothing in REPO is touched.
set -u
REPO="$1"; DEST="$2"; VERIF="$3"
files() { find "$1/visitor/src" "$1/plugin/src" -name '*.rs' ! -name verif_hooks.rs 2>/dev/null; }
if ! grep -lE '(^|[^A-Za-z0-9_])sync::|std::sync' $(files "$REPO") >/dev/null 2>&1; then exit 1; fi
mkdir -p "$DEST" || exit 1
rsync -a --delete --exclude target --exclude .git --exclude node_modules "$REPO/" "$DEST/" || exit 1
n="$(python3 "$VERIF/tools/instrument_sync.py" $(files "$DEST"))" || exit 1
[ "${n:-0}" -gt 0 ] || exit 1
printf '\n[dependencies.verif_sync]\npath = "%s/sim/verif-sync"\n' "$VERIF" >> "$DEST/visitor/Cargo.toml"
exit 0
