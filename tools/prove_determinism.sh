#!/bin/bash
# Proves the simulator deterministic on a sample: every run index of every stratum in [0,N) is
# executed under partitions into 1, 4 and 16 processes (so in 3 different processes, next to
# different neighbours, with different process-level hash keys), and once more at 16; the
# (event-log fingerprint, interleaving fingerprint, #decisions) of each run must be identical.
# usage: tools/prove_determinism.sh [N=5000] [seed=1]
set -eu
N="${1:-5000}"; SEED="${2:-1}"
VERIF="$(cd "$(dirname "${BASH_SOURCE[0]}")/.." && pwd)"
"$VERIF/check" --build-only
BIN="$VERIF/sim/target/debug/vuejsx-sim"
T="$(mktemp -d)"; trap 'rm -rf "$T"' EXIT
run() { # name parts
  local name="$1" parts="$2"
  for s in random crash preempt siblings duel gen; do
    for i in $(seq 0 $((parts-1))); do
      "$BIN" hashes --verif "$VERIF" --seed "$SEED" --stratum $s --from 0 --to "$N" --index $i --of $parts > "$T/$name.$s.$i" &
      if (( (i+1) % 16 == 0 )); then wait; fi
    done
    wait
  done
  cat "$T/$name".*.* | sort > "$T/$name.all"; rm -f "$T/$name".*.[0-9]*
}
run p16a 16; run p16b 16; run p4 4; run p1 1
n=$(wc -l < "$T/p16a.all")
for x in p16b p4 p1; do
  if ! cmp -s "$T/p16a.all" "$T/$x.all"; then
    echo "NONDETERMINISTIC: $x differs from p16a"; diff "$T/p16a.all" "$T/$x.all" | head -20; exit 1
  fi
done
echo "deterministic: $n runs x 4 executions (partitions 16,16,4,1), seed $SEED, all fingerprints identical"
