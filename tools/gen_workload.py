#!/usr/bin/env python3
"""Expands the adversarial grid of DESIGN.md §3.5 into /verif/workload/grid once.
The output is checked in; nothing is generated at check time."""
import os, sys, shutil
root = os.path.join(os.path.dirname(os.path.abspath(__file__)), "..", "workload", "grid")
shutil.rmtree(root, ignore_errors=True)

def w(rel, text, cfg=None):
    p = os.path.join(root, rel)
    os.makedirs(os.path.dirname(p), exist_ok=True)
    open(p, "w").write(text if text.endswith("\n") else text + "\n")
    if cfg is not None:
        open(os.path.splitext(p)[0] + ".json", "w").write(cfg + "\n")

# ---- A. directives x attribute-value kinds
values = [
    ("none", ""),
    ("str", '="x"'),
    ("strempty", '=""'),
    ("expr", "={x}"),
    ("member", "={x.y.z}"),
    ("call", "={f(x)}"),
    ("elem", "=<b/>"),
    ("elemkids", "=<b>t{u}</b>"),
    ("frag", "=<></>"),
    ("fragkids", "=<>a{b}</>"),
    ("arr0", "={[]}"),
    ("arrhole", "={[,]}"),
    ("arrholes", "={[,,]}"),
    ("arrspread", "={[...x]}"),
    ("arr1", "={[x]}"),
    ("arrarg", '={[x, "arg"]}'),
    ("arrmods", '={[x, ["m1", "m2"]]}'),
    ("arrargmods", '={[x, "arg", ["m"]]}'),
    ("arrdynarg", "={[x, arg]}"),
    ("arrdynargmods", '={[x, arg, ["m"]]}'),
    ("arrholearg", '={[x, , ["m"]]}'),
    ("arrholeval", '={[, "a", ["m"]]}'),
    ("arrmodsholes", '={[x, [, "m", ...r, 1, y]]}'),
    ("arrspreadarg", '={[x, ...rest]}'),
    ("arrnested", "={[[x]]}"),
    ("arrnested2", '={[[x, "a", ["m"]], [y], [z, "b"]]}'),
    ("arrnestedbad", "={[[], [,], ...y, 1, [[w]]]}"),
    ("obj", "={{a: 1, b}}"),
    ("fn", "={() => x}"),
    ("tpl", "={`a${b}`}"),
    ("num", "={0}"),
    ("undef", "={undefined}"),
    ("cond", "={a ? b : [c]}"),
]
directives = [
    "v-html", "v-text", "v-model", "v-models", "v-show", "v-custom", "v-slots",
    "v-model:arg", "v-model_mod", "v-model:arg_m1_m2", "vModel", "vModel:arg",
    "v-custom:arg", "v-custom_m1_m2", "v-custom:arg_m1", "vCustom", "vCustomDir:a_b",
    "v-show:arg_mod", "v-html_mod", "v-text:arg", "v-slots:arg", "v-models:arg",
]
hosts = [("el", "div"), ("input", "input"), ("select", "select"), ("textarea", "textarea"), ("comp", "A"), ("member", "A.b"), ("custom", "x-foo")]
def fname(d):
    return d.replace(":", "-c-").replace("_", "-u-")
for d in directives:
    for hn, h in hosts:
        if hn in ("select", "textarea", "input") and not d.lower().replace("-", "").startswith("vmodel"):
            continue
        if hn in ("member", "custom") and d not in ("v-model", "v-slots", "v-custom", "v-models"):
            continue
        lines = [f"const {n} = <{h} {d}{v}>{'{kid}' if hn == 'comp' and n in ('expr','elem','none') else ''}</{h}>;" for n, v in values]
        w(f"dir-all/{fname(d)}.{hn}.jsx", "\n".join(lines))
# singletons for the classes C08's quantifier names
for d in ["v-html", "v-text", "v-model", "v-models", "v-show", "v-custom", "v-slots"]:
    for n, v in values:
        if n in ("none", "str", "elem", "frag", "arr0", "arrhole", "arrspread", "arrholeval", "arrnestedbad", "expr"):
            w(f"dir-one/{fname(d)}.{n}.jsx", f"const a = <div {d}{v}></div>;\nconst b = <A {d}{v}>{{kid}}</A>;")
# input type variants for v-model
types = ['type="checkbox"', 'type="radio"', 'type="text"', "type={t}", "type", 'type=<b/>', "{...sp}", 'type="checkbox" type="radio"']
w("dir-all/v-model.types.jsx", "\n".join(f"const t{i} = <input {t} v-model={{x}} />;" for i, t in enumerate(types)))
# odd directive names
odd = ["v", "v-", "v-_a", "v--x", "vA", "vA:b_c={1}", "v-on", "v-bind={x}", "v-if={c}", "v-for", "v-Model={x}", "v-MODEL={x}", "v-html-extra={x}", "vHtml={x}", "vText={x}", "vSlots={s}", "vModels={[[x]]}", "v_model={x}", "V-model={x}", "va", "v1", "v-model_={x}", "v-model__a={x}", "v-model:={x}".replace(":=", ":a="), "v-:a", "v-custom:_={x}".replace(":_", ":a_")]
w("dir-all/odd-names.jsx", "\n".join(f"const o{i} = <div {o} />;\nconst p{i} = <A {o} />;" for i, o in enumerate(odd)))

# ---- B. attributes, tags, children
attrs = [
    'a=<b/> c=<></>', 'a="1" a="2"', 'class="a" class={b} class={[c]}', 'style="a" style={b}', 'onClick={a} onClick={b} onUpdate:modelValue={c}',
    'on={o}', 'nativeOn={o}', 'on={o} on={p} nativeOn={q}', '{...a}', '{...a} {...b}', 'x="1" {...a} y={2}', '{...{a: 1, b}}', '{...{}} z', 'ref="r"', 'ref={r} key={k}',
    'key="k" on-click={f}', 'a:b="1" c:d={2}', 'xlink:href="#a"', 'data-x="1" aria-label={l}', 'a="&amp; &lt; &#65;"', 'a="  spaced\n   over lines  "', 'a={undefined} b={null} c={[1, "2"]} d={{e: 1}}',
    'onclick={f} onClick={g} onMouseenter={h} onupdate={i}', 'class={c} style={s} {...r}', 'innerHTML={h} textContent={t}', 'modelValue={m} onUpdate:modelValue={u}',
    'a={/* empty */}'.replace("{/* empty */}", '{x /* c */}'),
]
w("attrs/all.jsx", "\n".join(f"const e{i} = <div {a} />;\nconst c{i} = <Comp {a} />;" for i, a in enumerate(attrs)))
for i, a in enumerate(attrs[:12]):
    w(f"attrs/one{i:02d}.jsx", f"const e = <div {a}>t</div>;\nconst c = <Comp {a}>{{k}}</Comp>;")
tags = ["div", "svg", "circle", "foo", "Foo", "foo-bar", "x-foo", "ElButton", "Fragment", "KeepAlive", "this.A", "a.b", "A.b.c", "a:b", "A:B", "_x", "$x", "h1", "H1", "Div", "template", "slot", "component", "transition"]
w("tags/all.jsx", "const Foo = 1, _x = 2, $x = 3, A = {}, a = {}, Div = 4, H1 = 5;\n" + "\n".join(f"const t{i} = <{t} p={{1}}>{{k{i}}}</{t}>;\nconst u{i} = <{t} />;" for i, t in enumerate(tags)))
kids = [
    "text", " lead", "trail ", "  both  ", "a\n   b\n  c", "\n  \n", "&amp;&nbsp;&#x41;", "{}", "{/* c */}", "{x}", "{...x}", "{x}{y}", "{f()}", "{a.b}", "{() => 1}", "{function () {}}", "{{a: 1}}", "{{}}", "{[1, 2]}", "{`t`}", "{1}", "{null}", "{cond ? <a/> : <b/>}", "{list.map(i => <li>{i}</li>)}",
    "<b/>", "<></>", "<>t</>", "<B>{z}</B>", "t{x}t", "{x} {y}", "<b/>{x}<c/>", "{<b/>}", "{<></>}",
]
w("kids/all.jsx", "\n".join(f"const e{i} = <div>{k}</div>;\nconst c{i} = <Comp>{k}</Comp>;\nconst f{i} = <>{k}</>;" for i, k in enumerate(kids)))
for i, k in enumerate(kids):
    if i in (7, 8, 9, 10, 12, 14, 16, 17, 22, 23, 27):
        w(f"kids/one{i:02d}.jsx", f"const e = <div>{k}</div>;\nconst c = <Comp>{k}</Comp>;\nconst d = <A.b v-slots={{s}}>{k}</A.b>;")
# deep nesting
def nest(tag, n, leaf):
    return "".join(f"<{tag}>" for _ in range(n)) + leaf + "".join(f"</{tag}>" for _ in range(n))
w("deep/div64.jsx", f"const d = {nest('div', 64, '{x}')};")
w("deep/comp64.jsx", f"const d = {nest('A', 64, '{f()}')};")
w("deep/frag64.jsx", "const d = " + "<>" * 64 + "t{x}" + "</>" * 64 + ";")
w("deep/mixed48.jsx", "const d = " + "".join(("<A>" if i % 3 == 0 else "<div>" if i % 3 == 1 else "<>") for i in range(48)) + "{g()}" + "".join(("</A>" if i % 3 == 0 else "</div>" if i % 3 == 1 else "</>") for i in reversed(range(48))) + ";")
w("deep/attr-elems.jsx", "const d = <A a=" + "<B b=" * 12 + "<c/>" + "/>" * 12 + "/>;")
w("deep/arrow-slots.jsx", "const d = " + "() => <A>{f(" * 10 + "1" + ")}</A>" * 10 + ";")
w("deep/wide.jsx", "const d = <div>" + "".join(f"<A k{i}={{v{i}}}>{{f{i}()}}</A>" for i in range(40)) + "</div>;")

# v-model duplicates its value expression (once as the value, once as the assignment target of the update
# listener), so v-model nested in a v-model value doubles the output per level: a known finding (DESIGN.md 3.9),
# kept under the module's own options only because every execution of it runs into the memory limit
def vmodel(d):
    e = "x"
    for _ in range(d):
        e = f"<input v-model={{{e}}} />"
    return f"const a = {e};"
w("deep/vmodel-nested-8.jsx", vmodel(8))
w("deep/vmodel-nested-40.jsx", vmodel(40), "{}")
open(os.path.join(root, "deep/vmodel-nested-40.only-own"), "w").write("")

# ---- C. type resolution: cycles through each of the four resolvers, and legal recursion
hdr = 'import { defineComponent, SetupContext } from "vue";\n'
cyc = {
    "alias-mutual": "type A = B; type B = A;\ndefineComponent((p: A) => {});",
    "alias-self": "type A = A;\ndefineComponent((p: A) => {});",
    "alias-3cycle": "type A = B; type B = C; type C = A;\ndefineComponent((p: A) => {});",
    "iface-extends-self": "interface A extends A {}\ndefineComponent((p: A) => {});",
    "iface-extends-mutual": "interface A extends B { a: 1 } interface B extends A { b: 2 }\ndefineComponent((p: A) => {});",
    "iface-alias-cycle": "interface A extends B {} type B = A;\ndefineComponent((p: A) => {});",
    "alias-intersection-self": "type A = A & { x: 1 };\ndefineComponent((p: A) => {});",
    "alias-intersection-double": "type A = A & A;\ndefineComponent((p: A) => {});",
    "alias-union-self": "type A = { x: 1 } | A;\ndefineComponent((p: A) => {});",
    "alias-paren-self": "type A = (A);\ndefineComponent((p: A) => {});",
    "partial-self": "type A = Partial<A>;\ndefineComponent((p: A) => {});",
    "required-self": "type A = Required<A>;\ndefineComponent((p: A) => {});",
    "pick-self": 'type A = Pick<A, "x">;\ndefineComponent((p: A) => {});',
    "omit-self": 'type A = Omit<A, "x">;\ndefineComponent((p: A) => {});',
    "pick-keys-self": "type K = K; type O = { a: 1 };\ndefineComponent((p: Pick<O, K>) => {});",
    "pick-keys-union-self": 'type K = "a" | K; type O = { a: 1 };\ndefineComponent((p: Pick<O, K>) => {});',
    "omit-keys-mutual": "type K1 = K2; type K2 = K1; type O = { a: 1 };\ndefineComponent((p: Omit<O, K1>) => {});",
    "indexed-self": 'type A = A["x"];\ndefineComponent((p: { a: A }) => {});',
    "indexed-member-self": 'type A = { x: A["x"] };\ndefineComponent((p: A) => {});',
    "indexed-iface-self": 'interface I { x: I["x"] }\ndefineComponent((p: I) => {});',
    "indexed-number-self": "type T = T[number];\ndefineComponent((p: { t: T }) => {});",
    "indexed-key-self": 'type K = K; interface I { a: string }\ndefineComponent((p: { v: I[K] }) => {});',
    "indexed-top": 'type A = { x: A["x"] };\ndefineComponent((p: A["x"]) => {});',
    "runtime-self": "type A2 = A2;\ndefineComponent((p: { a: A2 }) => {});",
    "runtime-union-self": "type U = U | string;\ndefineComponent((p: { a: U }) => {});",
    "runtime-nonnullable-self": "type A2 = A2; type A = { a: NonNullable<A2> };\ndefineComponent((p: A) => {});",
    "runtime-exclude-self": "type U = Exclude<U, null>;\ndefineComponent((p: { a: U }) => {});",
    "runtime-extract-self": "type U = Extract<string, U>;\ndefineComponent((p: { a: U }) => {});",
    "runtime-paren-self": "type P = (P);\ndefineComponent((p: { a?: P }) => {});",
    "runtime-optional-tuple": "type P = [P?];\ndefineComponent((p: { a: P[0] }) => {});",
    "emits-self": "type E = E;\ndefineComponent((p: {}, c: SetupContext<E>) => {});",
    "emits-mutual": "type E = F; type F = E;\ndefineComponent((p: {}, c: SetupContext<E>) => {});",
    "emits-call-key-self": "type K = K; type E = { (e: K): void };\ndefineComponent((p: {}, c: SetupContext<E>) => {});",
    "emits-iface-extends-self": "interface E extends E { (e: 'a'): void }\ndefineComponent((p: {}, { emit }: SetupContext<E>) => {});",
    "both-cyclic": "type A = A; type E = E;\ndefineComponent((p: A, c: SetupContext<E>) => {});\ndefineComponent((p: A) => {});",
    "cyclic-then-fine": "type A = B; type B = A; type Ok = { a: string };\ndefineComponent((p: A) => {});\nconst C = defineComponent((p: Ok) => {});",
}
for n, body in cyc.items():
    w(f"types-cyc/{n}.tsx", hdr + body, '{"resolveType":true}')
legal = {
    "recursive-iface": "interface N { next: N; v: number }\ndefineComponent((p: N) => {});",
    "recursive-tree": "type Tree = { kids: Tree[]; label?: string };\ndefineComponent((p: Tree) => {});",
    "recursive-optional": "type L = { n?: L | null };\ndefineComponent((p: L) => {});",
    "recursive-mutual-members": "interface A { b: B } interface B { a: A }\ndefineComponent((p: A & B) => {});",
    "chain-100": "".join(f"type A{i} = A{i+1}; " for i in range(100)) + "type A100 = { x: string };\ndefineComponent((p: A0) => {});",
    "extends-chain-60": "".join(f"interface I{i} extends I{i+1} {{ p{i}: number }} " for i in range(60)) + "interface I60 { last: string }\ndefineComponent((p: I0) => {});",
    "wide-intersection": "type W = " + " & ".join(f"{{ p{i}?: string }}" for i in range(80)) + ";\ndefineComponent((p: W) => {});",
    "odd-keys": 'defineComponent((p: { [k: string]: number; 1: string; [Symbol.iterator]: any; "x-y"?: boolean; [`t`]: 1; get g(): string; set s(v: number); m?(): void; new (): X; (): Y; readonly r: Date }) => {});',
    "unresolvable": "import type { Ext } from './x';\ndefineComponent((p: Ext) => {});\ndefineComponent((p: Unknown<string>) => {});\ndefineComponent((p: string) => {});\ndefineComponent((p: Ext['a']) => {});\ndefineComponent((p: Pick<Ext, Keys>) => {});\ndefineComponent((p: {}, c: SetupContext<Ext>) => {});\ndefineComponent((p: { [x + y]: 1 }) => {});",
    "utility-edge": "type O = { a: string; b?: number; c(): void; get d(): boolean };\ndefineComponent((p: Partial<O>) => {});\ndefineComponent((p: Required<O>) => {});\ndefineComponent((p: Pick<O, 'a' | 'c' | 'zz'>) => {});\ndefineComponent((p: Omit<O, 'a' | 'd'>) => {});\ndefineComponent((p: Partial) => {});\ndefineComponent((p: Pick<O>) => {});\ndefineComponent((p: Pick<O, 1>) => {});\ndefineComponent((p: Omit<O, string>) => {});",
    "indexed-edge": "type T = [string, number?, ...boolean[]]; interface I { a: string; 'b-c': number; m(): void; [k: string]: any }\ndefineComponent((p: { a: T[0]; b: T[1]; c: T[9]; d: T[number]; e: I['a' | 'b-c']; f: I[string]; g: I['m']; h: string[][number]; i: Array<Date>[0]; j: I[number]; k: { x: 1 }['x']; l: T[-1]; m: T[1.5] }) => {});",
    "runtime-all": "enum En { A } class K {}\ndefineComponent((p: { a: string; b: number; c: boolean; d: object; e: null; f: bigint; g: symbol; h: any; i: unknown; j: never; k: void; l: undefined; m: () => void; n: new () => K; o: string[]; p: [1]; q: 'l' | 1 | true | 2n | `t`; r: Map<any, any>; s: En; t: K; u: typeof p; v: keyof K; w: K extends En ? 1 : 2; x: { (): void }; y: { new (): K }; z: Uppercase<'a'>; aa: Parameters<F>; ab: NonNullable<string | null>; ac: Exclude<string | number, string>; ad: Extract<string | number, number>; ae: NonNullable; af: Exclude; ag: Extract<string>; ah: InstanceType<typeof K>; ai: Readonly<{}>; aj: Record<string, 1>; ak: this; al: infer_; am: string & {}; an: (string | number)[]; ao?: (string) }) => {});",
    "defaults-all": "const dyn = { a: 1 }; const b = 2;\ndefineComponent((p: { a?: number; b?: number; 'c-d'?: string; e?: Function; 1?: number } = { a: 1, b, 'c-d': 'x', e() {}, get 1() { return 1 } }) => {});\ndefineComponent((p: { a?: number } = dyn) => {});\ndefineComponent((p: { a?: number } = { ...dyn }) => {});\ndefineComponent((p: { a?: number } = { [k]: 1 }) => {});\ndefineComponent((p: { a?: number } = { ['a']: [] , [1]: {} }) => {});\ndefineComponent(function (p: { a?: number } = f()) {});\ndefineComponent(({ a }: { a?: number } = {}) => {});\ndefineComponent(([a]: [number] = [1]) => {});",
    "emits-all": "type Fn = (e: 'a' | 'b', v: number) => void; interface Ev { (e: 'c'): void; d: [x: number]; 'e-f'(x: 1): void; get g(): 1 }\ndefineComponent((p: {}, c: SetupContext<Fn>) => {});\ndefineComponent((p: {}, { emit }: SetupContext<Ev>) => {});\ndefineComponent((p: {}, [a]: SetupContext<Fn & Ev>) => {});\ndefineComponent((p: {}, c: SetupContext<{ (e: string): void; (...r: ['z']): void; ([a]: 'y'): void; ({ a }: 'x'): void; (): void }>) => {});\ndefineComponent((p: {}, c: SetupContext) => {});\ndefineComponent((p: {}, c: Other<Fn>) => {});\ndefineComponent((p: {}, c: SetupContext<>) => {});".replace("SetupContext<>", "SetupContext<[]>"),
    "call-shapes": "const o = { x: 1 }; const arr = [o];\nconst C1 = defineComponent((p: { a: 1 }) => {}, { name: 'N', props: {} });\nconst C2 = defineComponent((p: { a: 1 }) => {}, o);\nconst C3 = defineComponent((p: { a: 1 }) => {}, ...arr);\nconst C4 = defineComponent(...arr);\nconst C5 = defineComponent();\nconst C6 = defineComponent({ setup() {} });\nconst C7 = defineComponent(function named(p: { a: 1 }, c: SetupContext<{ (e: 'x'): void }>) {}, { emits: ['y'], ['name']: 'Z' });\nlet C8; C8 = defineComponent((p: { a: 1 }) => {});\nconst { C9 } = defineComponent((p: { a: 1 }) => {});\nexport default defineComponent((p: { a: 1 }) => {});\nfunction scope() { const defineComponent = (x: any) => x; return defineComponent((p: { a: 1 }) => {}); }\nconst C10 = defineComponent(async (p: { a: 1 }) => {}), C11 = defineComponent((p) => {}), C12 = defineComponent((...r: [{ a: 1 }]) => {});",
    "scoped-types": "type T = { top: string };\nfunction f() { type T = { inner: number }; return defineComponent((p: T) => {}); }\nconst g = () => { interface T { arrow: boolean } return defineComponent((p: T) => {}); };\ndefineComponent((p: T) => {});\ninterface M { a: 1 } interface M { b: 2 }\ndefineComponent((p: M) => {});\ndefineComponent((p: Later) => {});\ntype Later = { l: 1 };",
}
# far deeper than any nesting limit: whatever the pass does with it must not depend on how much stack the host thread has
legal["chain-2000"] = "".join(f"type A{i} = A{i+1}; " for i in range(2000)) + "type A2000 = { x: string };\ndefineComponent((p: A0) => {});\ndefineComponent((p: { a: A1500 }) => {});"
legal["extends-chain-1500"] = "".join(f"interface I{i} extends I{i+1} {{ p{i}: number }} " for i in range(1500)) + "interface I1500 { last: string }\ndefineComponent((p: I0) => {});"
legal["paren-150"] = "type P = " + "(" * 150 + "{ a: string }" + ")" * 150 + ";\ndefineComponent((p: P) => {});\ndefineComponent((p: { q: P }) => {});"
# legal, acyclic, but a DAG: every level refers to the next one twice, so naive expansion doubles per level
def dag(n, op, leaf):
    return "".join(f"type T{i} = T{i+1} {op} T{i+1};\n" for i in range(n)) + f"type T{n} = {leaf};\n"
legal["dag-inter-24"] = dag(24, "&", "{ a: string }") + "defineComponent((p: T0) => {});"
legal["dag-union-24"] = dag(24, "|", "string") + "defineComponent((p: { a: T0 }) => {});"
legal["dag-keys-24"] = dag(24, "|", "'a'") + "type O = { a: string; b: number };\ndefineComponent((p: Pick<O, T0>) => {});"
legal["dag-emits-24"] = dag(24, "&", "{ (e: 'x'): void }") + "defineComponent((p: {}, c: SetupContext<T0>) => {});"
legal["dag-indexed-24"] = dag(24, "&", "{ k: string }") + "defineComponent((p: { v: T0['k'] }) => {});"
legal["dag-small-6"] = dag(6, "&", "{ a: string; b?: number }") + "defineComponent((p: T0) => {});"
for n, body in legal.items():
    w(f"types/{n}.tsx", hdr + body, '{"resolveType":true,"optimize":true}')
w("types/aliased-import.tsx", 'import { defineComponent as dc, defineComponent } from "vue";\nimport * as V from "vue";\ndc((p: { a: 1 }) => {});\nV.defineComponent((p: { a: 1 }) => {});\ndefineComponent((p: { a: 1 }) => {});', '{"resolveType":true}')
w("types/not-vue.tsx", 'import { defineComponent } from "other";\ntype A = A;\ndefineComponent((p: A) => {});\nconst x = <div>{1}</div>;', '{"resolveType":true}')
w("types/no-resolve.tsx", hdr + "type A = A;\nconst C = defineComponent((p: A) => () => <div>{p}</div>);", '{"resolveType":false,"optimize":true}')

# ---- C2. every position a type reference can occupy x every kind of cycle (one defineComponent call per
# position, so that each is resolved on its own), as the props type itself and nested in a member
cycles = {
    "self": ("type T = T;", "T"),
    "mutual": ("type T = U; type U = T;", "T"),
    "three": ("type T = U; type U = V; type V = T;", "T"),
    "iface-self": ("interface T extends T {}", "T"),
    "iface-mutual": ("interface T extends U { a: 1 } interface U extends T { b: 2 }", "T"),
    "iface-alias": ("interface T extends U {} type U = T;", "T"),
    "branch-union": ("type T = T | T;", "T"),
    "branch-inter": ("type T = { a: string } & T & T;", "T"),
    "branch-extends": ("interface T extends U, U {} interface U extends T, T {}", "T"),
    "branch-keys": ("type T = 'a' | T | T;", "T"),
    "member-indexed": ("type T = { x: T['x'] };", "T"),
    "indexed-self": ("type T = T['x'];", "T"),
    "paren": ("type T = (T);", "T"),
    "partial": ("type T = Partial<T>;", "T"),
    "via-pick": ("type T = Pick<T, 'a'> & { a: 1 };", "T"),
    "nonnullable": ("type T = NonNullable<T>;", "T"),
    "tuple-optional": ("type T = [T?];", "T"),
    "array": ("type T = T[];", "T"),
}
positions = [
    "{T}", "({T})", "{T} | string", "{T} & { q: 1 }", "string | {T} | {T}", "{T}[]", "[{T}]", "[{T}?]", "Array<{T}>",
    "{T}['k']", "{T}[string]", "{T}[number]", "{T}[K]", "{T}['k' | 'j']", "O[{T}]", "O[{T} | 'a']", "{T}['k']['j']", "({T})['k']",
    "Partial<{T}>", "Required<{T}>", "Readonly<{T}>", "Pick<{T}, 'a'>", "Omit<{T}, 'a'>", "Pick<O, {T}>", "Omit<O, {T}>", "Pick<{T}, {T}>",
    "NonNullable<{T}>", "Exclude<{T}, null>", "Extract<string, {T}>", "Uppercase<{T}>", "Record<{T}, {T}>", "Parameters<{T}>", "Unknown<{T}>",
    "{ m: {T} }", "{ m: {T}['k'] }", "{ m?: ({T}) }", "{ m: { n: {T} } }", "{ [k: string]: {T} }", "{ (e: {T}): void }", "(e: {T}) => void",
    "typeof {T}", "keyof {T}",
]
pre = "type K = 'a' | 'b'; type O = { a: string; b?: number };\n"
for cn, (decl, name) in cycles.items():
    top = "\n".join(f"const C{i} = defineComponent((p: {pos.replace('{T}', name)}) => {{}});" for i, pos in enumerate(positions))
    nested = "\n".join(f"const C{i} = defineComponent((p: {{ z: {pos.replace('{T}', name)}; ok: string }}) => {{}});" for i, pos in enumerate(positions))
    emits = "\n".join(f"const C{i} = defineComponent((p: {{}}, c: SetupContext<{pos.replace('{T}', name)}>) => {{}});" for i, pos in enumerate(positions))
    dflt = "\n".join(f"const C{i} = defineComponent((p: {pos.replace('{T}', name)} = dyn) => {{}});" for i, pos in enumerate(positions[:12]))
    w(f"types-cyc-grid/{cn}.top.tsx", hdr + pre + decl + "\n" + top, '{"resolveType":true}')
    w(f"types-cyc-grid/{cn}.nested.tsx", hdr + pre + decl + "\n" + nested, '{"resolveType":true}')
    w(f"types-cyc-grid/{cn}.emits.tsx", hdr + pre + decl + "\n" + emits, '{"resolveType":true}')
    w(f"types-cyc-grid/{cn}.defaults.tsx", hdr + pre + decl + "\nconst dyn = {};\n" + dflt, '{"resolveType":true,"optimize":true}')
# the same positions with a perfectly legal type, as a control
legal_t = "type T = { a: string; k: { j: number }; x?: T };"
w("types-cyc-grid/legal.top.tsx", hdr + pre + legal_t + "\n" + "\n".join(f"const C{i} = defineComponent((p: {pos.replace('{T}', 'T')}) => {{}});" for i, pos in enumerate(positions)), '{"resolveType":true}')
w("types-cyc-grid/legal.emits.tsx", hdr + pre + legal_t + "\n" + "\n".join(f"const C{i} = defineComponent((p: {{}}, c: SetupContext<{pos.replace('{T}', 'T')}>) => {{}});" for i, pos in enumerate(positions)), '{"resolveType":true}')

# ---- D. "multi": at least four of everything that can end up in a collection (so that an order that is not a
# function of the input - hash keys, mark numbers, addresses - shows in the output with near certainty)
w("multi/props-dynamic.jsx", "\n".join([
    "const a1 = <div id={a} title={b} alt={c} lang={d} dir={e} role={f} tabindex={g} />;",
    "const a2 = <Comp zeta={a} alpha={b} mid={c} beta={d} omega={e} gamma={f}>{k}</Comp>;",
    "const a3 = <div onClick={a} onFocus={b} onBlur={c} onKeydown={d} onInput={e} id={i} />;",
    "const a4 = <div data-a={a} data-b={b} aria-x={c} aria-y={d} z={z} y={y} x={x} w={w} />;",
    "const a5 = <Comp onUpdate:a={a} onUpdate:b={b} onUpdate:c={c} modelValue={m} p={p} q={q} />;",
    "const a6 = <div a={a} b='s' c={c} d={1} e={e} f={null} g={g} h i={i} />;",
]))
w("multi/spread-object.jsx", "\n".join([
    "const s1 = <div {...{ id: a, title: b, alt: c, lang: d, dir: e }} />;",
    "const s2 = <div x={1} {...{ id: a, title: b }} y={c} />;",
    "const s3 = <Comp {...{ p: a, q: b, r: c, s: d, t: e, u: f }}>{k}</Comp>;",
    "const s4 = <div {...{ a, b, c, d }} {...o} />;",
    "const s5 = <div {...{ ['k']: v, a, b, c }} />;",
    "const s6 = <div {...{ class: c, style: s, onClick: f, id: i, title: t, key: k, ref: r }} />;",
    "const s7 = <div {...{ zeta: z, alpha: a }} {...{ mid: m, beta: b }} {...{ omega: o, gamma: g }} />;",
    "const s8 = <div {...{ a: 1, b: 's', c: x, d: y, e: null, f: z }} />;",
    "const s9 = <div {...{ get a() { return 1 }, b() {}, c: x, d: y, ...inner, e: z }} />;",
    "const s10 = <Comp v-model={m} {...{ id: a, title: b, alt: c }} onFoo={f} />;",
]))
w("multi/directives.jsx", "\n".join([
    "const d1 = <div v-a_m1_m2_m3_m4_m5={x} v-b:arg_z_y_x_w={y} v-c={[z, 'arg', ['q', 'r', 's', 't', 'u']]} />;",
    "const d2 = <input v-model_lazy_trim_number={x} />;",
    "const d3 = <A v-model:foo_a_b_c_d={x} v-model:bar_e_f_g={y} v-models={[[p, 'p1', ['m', 'n', 'o']], [q, 'q1', ['r', 's', 't']], [r, dyn, ['u', 'v', 'w']]]} />;",
    "const d4 = <div v-show={s} v-one={1} v-two={2} v-three={3} v-four={4} v-five={5} />;",
    "const d5 = <Comp v-x={[v, 'a', ['zeta', 'alpha', 'mid', 'beta', 'omega']]} v-model={[m, ['zeta', 'alpha', 'mid', 'beta']]}>{k}</Comp>;",
    "const d6 = <textarea v-model_z_y_x_w_v={t} /> ;",
    "const d7 = <select v-model={[s, ['lazy', 'number', 'trim', 'other']]}><option v-foo_c_b_a /></select>;",
    "const d8 = <input type='checkbox' v-model_a_b_c={c} /> ;",
    "const d9 = <input type={t} v-model={[d, ['p', 'q', 'r', 's']]} v-models={[[e, ['x', 'y', 'z']], [f, 'g', ['h', 'i', 'j']]]} />;",
]))
w("multi/slots.jsx", "\n".join([
    "const l1 = <A v-slots={{ a: () => 1, b: () => 2, c, d, e }}>{{ x: () => 1, y: () => 2, z: () => 3 }}</A>;",
    "const l2 = <A>{{ default: () => [<b />], header: () => <h />, footer, extra, more }}</A>;",
    "const l3 = <A v-slots={{ zeta, alpha, mid, beta, omega }}><B>{f()}</B><C>{g()}</C><D>{h()}</D><E>{i()}</E></A>;",
    "const l4 = <A>{a()}{b()}{c()}{d()}{e()}</A>;",
    "const l5 = <A><B>{s1}</B><C>{s2}</C><D>{s3}</D><E>{s4}</E><F>{s5}</F></A>;",
    "function fl() { return <A><B>{t1()}</B><C>{t2()}</C><D>{t3()}</D><E>{t4()}</E></A>; }",
    "const al = () => <A><B>{u1()}</B><C>{u2()}</C><D>{u3()}</D><E>{u4()}</E></A>;",
]))
w("multi/captures.jsx", "\n".join([
    "let foo, bar, baz, qux, quux;",
    "foo = 0; bar = 0; baz = 0; qux = 0; quux = 0;",
    "foo = <Foo>{foo}</Foo>;", "bar = <Bar>{bar}</Bar>;", "baz = <Baz>{baz}</Baz>;", "qux = <Qux>{qux}</Qux>;", "quux = <Quux>{quux}</Quux>;",
    "function inner() { let a, b, c, d; a = <A>{a}</A>; b = <B>{b}</B>; c = <C>{c}</C>; d = <D>{d}</D>; return [a, b, c, d]; }",
    "const arrow = () => { let p, q, r, s; p = <P>{p}</P>; q = <Q>{q}</Q>; r = <R>{r}</R>; s = <S>{s}</S>; };",
    "{ let m, n, o; m = <M>{m}</M>; n = <N>{n}</N>; o = <O>{o}</O>; }",
]))
w("multi/imports.jsx", "\n".join([
    "import { KeepAlive, Teleport, Transition } from 'vue';",
    "const i1 = <><KeepAlive><A /></KeepAlive><Teleport to='b'><B /></Teleport></>;",
    "const i2 = <div v-show={s} v-custom={c}>text {x} more</div>;",
    "const i3 = <input v-model={m} /> ;", "const i4 = <input type='checkbox' v-model={m} /> ;", "const i5 = <input type='radio' v-model={m} /> ;",
    "const i6 = <select v-model={m} /> ;", "const i7 = <input type={t} v-model={m} /> ;", "const i8 = <textarea v-model={m} /> ;",
    "const i9 = <unknown-comp v-unknown-dir={d}>{f()}</unknown-comp>;",
    "const i10 = <div {...a} {...b} class='c' onClick={[h1, h2]} />;",
    "const i11 = <Comp onClick={h} on={{ a }} />;",
    "const i12 = <Transition><KeepAlive>{g()}</KeepAlive></Transition>;",
]))
w("multi/class-style-on.jsx", "\n".join([
    "const c1 = <div class='a' class={b} class={[c]} class={{ d }} style={s1} style={s2} style='s3' />;",
    "const c2 = <div onClick={a} onClick={b} onClick={c} onFocus={d} onFocus={e} onBlur={f} />;",
    "const c3 = <Comp class='a' {...x} class={b} {...y} style={s} onClick={a} {...z} onClick={b} />;",
    "const c4 = <div {...x} class='a' {...y} class='b' {...z} class='c' />;",
    "const c5 = <div key='k' ref={r} class={c} style={s} id='i' onClick={f} {...rest} key={k2} ref='r2' />;",
]))
thdr = 'import { defineComponent, SetupContext } from "vue";\n'
w("multi/types.tsx", thdr + "\n".join([
    "interface Props { zeta: string; alpha?: number; mid: boolean; beta: () => void; omega: string[]; gamma: object; delta: Date; eps: null; eta: any; theta: symbol }",
    "type Emits = { (e: 'zeta'): void; (e: 'alpha', v: number): void; (e: 'mid' | 'beta' | 'omega'): void; (e: 'gamma'): void };",
    "type Ev2 = { zeta: []; alpha: [n: number]; mid: []; beta: []; omega: [] };",
    "type U = string | number | boolean | (() => void) | object | any[] | Date | symbol | null | undefined | bigint;",
    "type I = Props & { extra1: U; extra2?: U; extra3: Props['zeta' | 'alpha' | 'mid'] };",
    "const C1 = defineComponent((p: Props) => () => <div>{p.zeta}</div>);",
    "const C2 = defineComponent((p: I, c: SetupContext<Emits>) => {});",
    "const C3 = defineComponent((p: Pick<Props, 'zeta' | 'alpha' | 'mid' | 'beta'> & Omit<Props, 'zeta' | 'eps'>, { emit }: SetupContext<Ev2>) => {});",
    "const C4 = defineComponent((p: { u: U; v?: U; w: 'a' | 1 | true | null; x: Props[keyof Props] }) => {});",
    "const C5 = defineComponent((p: Partial<Props> & Required<{ a?: 1; b?: 2; c?: 3; d?: 4 }>) => {});",
    "const C6 = defineComponent((p: Props = { zeta: 'z', alpha: 1, mid: true, beta() {}, omega: [], gamma: {} }) => {});",
    "const dflt = {};",
    "const C7 = defineComponent((p: Props = dflt) => {});",
    "const C8 = defineComponent((p: I = dflt, c: SetupContext<Emits & Ev2>) => {});",
    "const C9 = defineComponent((p: { a?: string; b?: number; c?: boolean; d?: object } = dflt) => {}, { name: 'Nine', inheritAttrs: false });",
]), '{"resolveType":true,"optimize":true}')
w("multi/types-many-components.tsx", thdr + "\n".join(
    [f"interface P{i} {{ a{i}: string; b{i}?: number; c{i}: boolean; d{i}: () => void }}" for i in range(6)]
    + [f"const K{i} = defineComponent((p: P{i} & P{(i+1)%6} = dyn{i}, c: SetupContext<{{ (e: 'x{i}' | 'y{i}' | 'z{i}'): void }}>) => () => <div v-show={{p.c{i}}}>{{p.a{i}}}</div>);" for i in range(6)]
    + [f"const dyn{i} = {{}};" for i in range(6)]), '{"resolveType":true,"optimize":true}')
w("multi/everything.tsx", thdr + "\n".join([
    "import { KeepAlive } from 'vue';",
    "interface P { zeta: string; alpha?: number; mid: boolean; beta: () => void }",
    "let cap1, cap2, cap3; cap1 = <A>{cap1}</A>; cap2 = <B>{cap2}</B>; cap3 = <C>{cap3}</C>;",
    "export default defineComponent((p: P = dflt, { emit }: SetupContext<{ (e: 'q' | 'r' | 's' | 't'): void }>) => () => (",
    "  <KeepAlive><div id={p.zeta} title={p.alpha} {...{ lang: l, dir: d, role: r }} v-show={p.mid} v-dir_a_b_c_d={x} onClick={h1} onClick={h2}>",
    "    <Comp v-model:foo_m1_m2_m3={m} v-slots={{ s1, s2, s3, s4 }}>{f()}</Comp><Comp>{g()}</Comp><Comp>{h()}</Comp><x-el a={a} b={b} c={c} d={d}>{k}</x-el>",
    "  </div></KeepAlive>));",
    "const dflt = {};",
]), '{"resolveType":true,"optimize":true,"mergeProps":false,"customElementPatterns":["^x-"]}')

# ---- E. "combo": a pairwise covering set over (tag kind, attribute set, directive, children kind, position in the
# program). Every pair of values of two different factors occurs in at least one module; the greedy construction is
# seeded and the result is checked in, so the set is fixed.
import itertools, random as _random
F_tag = ["div", "input", "Comp", "A.b", "x-foo", "KeepAlive", "foo-bar", "svg"]
F_attrs = ["", 'id="i"', "id={i}", "{...sp}", 'class="c" style={s}', "onClick={h}", "key={k} ref={r}", "a={1} {...sp} b={b}", "onUpdate:modelValue={u} modelValue={m}", 'a=<b/> c={<></>}']
F_dir = ["", "v-show={s}", "v-model={m}", "v-model:arg_mod={m}", "v-html={h}", "v-custom:arg_m1_m2={c}", "v-models={[[p, 'p'], [q, 'q', ['m']]]}", "v-slots={sl}", "v-text='t'"]
F_kids = ["", "text", "{x}", "{f()}", "<b />", "<B>{y}</B>", "{{ default: () => 1, named }}", "{() => 1}", "t {x} <i>{y}</i>", "{...rest}", "<></>", "{cond ? <a /> : null}"]
F_pos = ["const v = %s;", "function f() { return %s; }", "const g = () => %s;", "class K { m() { return %s; } }", "export default %s;", "let w; w = %s;", "const o = { p: %s, q: [%s] };", "h(%s, <Outer a=%s>{%s}</Outer>);"]
factors = [F_tag, F_attrs, F_dir, F_kids, F_pos]
def elem(t, a, d, k):
    parts = " ".join(x for x in (a, d) if x)
    open_ = f"<{t}{' ' + parts if parts else ''}"
    return f"{open_} />" if k == "" else f"{open_}>{k}</{t}>"
need = set()
for (i, fi), (j, fj) in itertools.combinations(list(enumerate(factors)), 2):
    for a in range(len(fi)):
        for b in range(len(fj)):
            need.add((i, a, j, b))
rnd = _random.Random(20261001)
rows = []
while need:
    best, gain = None, -1
    for _ in range(300):
        r = tuple(rnd.randrange(len(f)) for f in factors)
        g = sum(1 for (i, a, j, b) in need if r[i] == a and r[j] == b)
        if g > gain:
            best, gain = r, g
    rows.append(best)
    need = {(i, a, j, b) for (i, a, j, b) in need if not (best[i] == a and best[j] == b)}
for n, r in enumerate(rows):
    e = elem(F_tag[r[0]], F_attrs[r[1]], F_dir[r[2]], F_kids[r[3]])
    w(f"combo/c{n:03d}.jsx", "import { KeepAlive } from 'vue';\n" + F_pos[r[4]].replace("%s", e))

# ---- F. tag names by length: native HTML/SVG names of 9..19 bytes (from css_dataset 0.3.0, the lists the pass
# consults) next to made-up names of the same lengths, one small module per (length, kind), so that consecutive files
# on one thread hold different names of equal size - the situation in which anything keyed by where a name lives
# rather than by what it says goes wrong
long_native = {
    9: ["font-face"], 10: ["blockquote", "figcaption"], 11: ["altGlyphDef", "feComposite", "feMergeNode", "feSpotLight"],
    12: ["altGlyphItem", "animateColor", "feMorphology", "fePointLight", "feTurbulence"],
    13: ["animateMotion", "color-profile", "feColorMatrix", "font-face-src", "foreignObject", "missing-glyph"],
    14: ["feDistantLight", "feGaussianBlur", "font-face-name", "linearGradient", "radialGradient"],
    16: ["animateTransform", "feConvolveMatrix", "font-face-format"], 17: ["feDiffuseLighting", "feDisplacementMap"],
    18: ["feSpecularLighting"], 19: ["feComponentTransfer"],
}
def made_up(name):  # same length, same shape, not a native name
    return name[:-1] + ("x" if name[-1] != "x" else "y")
for L, names in long_native.items():
    body = lambda ns: "\n".join(f"const t{i} = <{n}>{{k{i}}}</{n}>;\nconst u{i} = <{n} a={{a{i}}} />;" for i, n in enumerate(ns))
    w(f"tags-long/len{L:02d}-native.jsx", body(names))
    w(f"tags-long/len{L:02d}-madeup.jsx", body([made_up(n) for n in names]))
    w(f"tags-long/len{L:02d}-mixed.jsx", body([x for n in names for x in (n, made_up(n))]))
short = ["a", "b", "em", "div", "span", "video", "button", "section", "textarea"]
w("tags-long/short-native.jsx", "\n".join(f"const t{i} = <{n}>{{k{i}}}</{n}>;" for i, n in enumerate(short)))
w("tags-long/short-madeup.jsx", "\n".join(f"const t{i} = <{made_up(n)}>{{k{i}}}</{made_up(n)}>;" for i, n in enumerate(short)))

# ---- G. list-valued option, adversarial values: pattern lists that differ only in where the list is split (their
# elements concatenate to the same text), over one source; plus an empty-string pattern and a duplicate. Anything that
# identifies an option value by less than the value itself (a joined string, a length, a hash of the concatenation)
# confuses these.
split_src = "\n".join(f"const s{i} = <{t} a={{v{i}}}>{{k{i}}}</{t}>;" for i, t in enumerate(["x-widget", "x-button", "my-widget", "x-w", "widget", "xwidget", "x-", "idget"]))
splits = {
    "a": '["^x-","widget$"]', "b": '["^x-w","idget$"]', "c": '["^x-widget$"]', "d": '["^x","-widget$"]',
    "e": '["^x-widget$",""]', "f": '["^x-","widget$","^x-"]', "g": '["widget$","^x-"]', "h": '["^x-widget$","^$"]',
}
for n, pats in splits.items():
    w(f"patterns-split/split-{n}.jsx", split_src, '{"optimize":true,"customElementPatterns":' + pats + '}')

# ---- H. non-ASCII text in every position a name or string can occupy (multi-byte characters next to '-', '_', ':',
# at the start and at the end; combining marks; astral-plane characters; case mappings that change length)
uni = ["é", "été", "sélection-été", "-é", "é-", "a-é-b", "价格-单位", "😀", "x-😀-y", "áb", "ß-ẞ", "İi", "ﬁ-ﬂ", "ñ_ü", "α:β"]
def jsx_name_ok(u):  # usable inside a JSX attribute / directive name (identifier characters and '-')
    return all(c.isalnum() or c in "-_" for c in u) and not u[0].isdigit() and u[0] != "-"
names = [u for u in uni if jsx_name_ok(u)]
w("unicode/directive-args.jsx", "\n".join(
    [f"const a{i} = <Comp v-model={{[val, {u!r}]}} />;".replace("'", '"') for i, u in enumerate(uni)]
    + [f"const b{i} = <input v-models={{[[val, {u!r}, ['lazy', {u!r}]]]}} />;".replace("'", '"') for i, u in enumerate(uni)]
    + [f"const c{i} = <div v-custom={{[val, {u!r}, [{u!r}]]}} />;".replace("'", '"') for i, u in enumerate(uni)]))
w("unicode/directive-names.jsx", "\n".join(
    [f"const a{i} = <Comp v-model:{n}={{val}} />;" for i, n in enumerate(names)]
    + [f"const b{i} = <div v-{n}:{n}_{n}={{val}} />;" for i, n in enumerate(names)]
    + [f"const c{i} = <input v-model_{n}={{val}} />;" for i, n in enumerate(names)]))
w("unicode/attrs-and-tags.jsx", "\n".join(
    [f"const a{i} = <div {n}={{v}} data-{n}=\"{n}\" on{n}={{h}}>{n} {{x}} {n}</div>;" for i, n in enumerate(names)]
    + [f"const b{i} = <x-{n} a=\"{u}\">{u}</x-{n}>;" for i, (n, u) in enumerate(zip(names, uni))]
    + ["const É = 1, Ünï = 2;", "const c0 = <É>{k}</É>;", "const c1 = <Ünï a={1} />;", "const c2 = <ns:été a:é={1} />;"]))
w("unicode/text.jsx", "\n".join([f"const t{i} = <div title=\"{u}\n   {u}\">  {u}\n   {u}  {{x}}</div>;" for i, u in enumerate(uni)]))
w("unicode/types.tsx", hdr + "\n".join(
    ["const C%d = defineComponent((p: { \"%s\": string; \"%sx\"?: number }, c: SetupContext<{ (e: \"%s\"): void }>) => {});" % (i, u, u, u) for i, u in enumerate(uni[:8])]
    + ["interface Été { é: string; 'a-é'?: number } type 价格 = { 单位: boolean };", "const D = defineComponent((p: Été & 价格 = dflt) => {}); const dflt = {};"]), '{"resolveType":true,"optimize":true}')

# ---- I. the same name declared in several scopes: namespaces, nested functions, blocks, modules
w("namespaces/qualified.tsx", hdr + "\n".join([
    "namespace Button { export interface Props { label: string; size?: number } export type Emits = { (e: 'press'): void } }",
    "namespace Dialog { export interface Props { title: string; open: boolean } export type Emits = { (e: 'close'): void } }",
    "namespace Outer { export namespace Inner { export interface Props { deep: string } } export interface Props { shallow: number } }",
    "interface Props { top: boolean }",
    "const B = defineComponent((p: Button.Props, c: SetupContext<Button.Emits>) => {});",
    "const D = defineComponent((p: Dialog.Props, c: SetupContext<Dialog.Emits>) => {});",
    "const O = defineComponent((p: Outer.Props) => {});", "const I = defineComponent((p: Outer.Inner.Props) => {});",
    "const T = defineComponent((p: Props) => {});", "const M = defineComponent((p: Button.Props & Dialog.Props & Props) => {});",
    "const X = defineComponent((p: { a: Button.Props['label']; b: Dialog.Props['open'] }) => {});",
    "const P = defineComponent((p: Pick<Button.Props, 'label'> & Partial<Dialog.Props>) => {});",
]), '{"resolveType":true,"optimize":true}')
w("namespaces/shadowing.tsx", hdr + "\n".join([
    "interface Props { level0: string } type Emits = { (e: 'l0'): void };",
    "const C0 = defineComponent((p: Props, c: SetupContext<Emits>) => {});",
    "function one() { interface Props { level1: number } type Emits = { (e: 'l1'): void }; const C1 = defineComponent((p: Props, c: SetupContext<Emits>) => {});",
    "  function two() { interface Props { level2: boolean } const C2 = defineComponent((p: Props, c: SetupContext<Emits>) => {});",
    "    { interface Props { level3: Date } const C3 = defineComponent((p: Props) => {}); }",
    "    return () => { type Props = { level4: symbol }; return defineComponent((p: Props) => {}); }; }",
    "  return two; }",
    "namespace N { export interface Props { inNs: string } export const C = defineComponent((p: Props) => {}); }",
    "class K { m() { interface Props { inMethod: string } return defineComponent((p: Props) => {}); } }",
    "const after = defineComponent((p: Props) => {});",
]), '{"resolveType":true,"optimize":true}')


# (after S42) a reference that NOTHING lexically visible binds, while several same-named declarations sit in
# disjoint nested scopes: whatever the pass does with it must not depend on context numbering
w("namespaces/unbound.tsx", hdr + "\n".join([
    "declare global { interface Props { g: string } type Ev = { (e: 'g'): void }; type Size = 'global' }",
    "function one() { interface Props { one: number } type Ev = { (e: 'one'): void }; type Size = 1; return defineComponent((p: Props, c: SetupContext<Ev>) => {}); }",
    "function two() { interface Props { two: boolean; size: Size } type Size = 2; }",
    "const three = () => { interface Props { three: Date } type Ev = (e: 'three') => void; };",
    "{ interface Props { block: symbol } type Size = 'block'; }",
    "class K { m() { interface Props { inMethod: string } type Ev = { inMethod: [] }; } }",
    "namespace N { export interface Props { inNs: string } export type Size = 'ns'; }",
    "if (cond) { type Props = { inIf: bigint }; }",
    "const C = defineComponent((p: Props, c: SetupContext<Ev>) => {});",
    "const D = defineComponent((p: Pick<Props, 'g' | 'one' | 'two'> & Partial<Props>) => {});",
    "const E = defineComponent((p: { a: Props['one']; b: Props['g']; s: Size }) => {});",
    "const F = defineComponent((p: Props & { extra: Size }) => {});",
    "interface Bound extends Props { own: string }", "const G = defineComponent((p: Bound) => {});",
]), '{"resolveType":true,"optimize":true}')
# ---- J. more distinct names than any bounded table holds: 2600 of each kind in one module, the first ones used
# again at the end (a cache that evicts, wraps around or overflows does so within this one file)
N = 2600
w("many/directives.jsx", "\n".join([f"const d{i} = <div v-dir{i}_m{i}={{x}} />;" for i in range(N)] + [f"const e{i} = <div v-dir{i}_m{i}={{y}} v-show={{s}} />;" for i in range(40)] + ["const f = <input v-model_trim={v} />;"]))
w("many/tags.jsx", "\n".join([f"const t{i} = <cust-tag{i} a={{x}}>{{k}}</cust-tag{i}>;" for i in range(N)] + [f"const u{i} = <cust-tag{i}>{{k}}</cust-tag{i}>;" for i in range(40)] + ["const v = <div><blockquote>{k}</blockquote></div>;"]), '{"optimize":true,"customElementPatterns":["^cust-tag1"]}')
w("many/texts.jsx", "\n".join([f"const s{i} = <div title=\"title number {i}\">text number {i}\n   continued {i}</div>;" for i in range(N)] + [f"const r{i} = <span title=\"title number {i}\">text number {i}\n   continued {i}</span>;" for i in range(40)]))
w("many/attrs.jsx", "const big = <div " + " ".join(f"attr{i}={{v{i}}}" for i in range(N)) + " />;\nconst again = <Comp " + " ".join(f"attr{i}={{w{i}}}" for i in range(300)) + ">{k}</Comp>;")
w("many/components.jsx", "\n".join([f"const c{i} = <Comp{i} p={{x}}>{{f{i}()}}</Comp{i}>;" for i in range(800)] + [f"const g{i} = <Comp{i}>{{g()}}</Comp{i}>;" for i in range(40)]))
w("many/types.tsx", hdr + "interface Big { " + " ".join(f"prop{i}{'?' if i % 3 == 0 else ''}: {['string', 'number', 'boolean', 'Date', '() => void'][i % 5]};" for i in range(N)) + " }\ntype Ev = { " + " ".join(f"(e: 'ev{i}'): void;" for i in range(600)) + " }\nconst C = defineComponent((p: Big, c: SetupContext<Ev>) => {});\nconst D = defineComponent((p: Pick<Big, 'prop0' | 'prop1' | 'prop2599'>) => {});", '{"resolveType":true,"optimize":true}')

# ---- K. the same NAMES bound to different things in sibling modules (type aliases, interfaces, enums, emits types,
# component names, imported helpers): state that is keyed by a name - without what the name is bound to in THIS
# module - and that survives from one module to the next (or survives an aborted transform) shows when a sibling
# follows; the siblings stratum runs A;B;A, the crash sweep [A crashed at k; B; A]
tvars = [
    ("num", "number", "string", "{ (e: 'change', v: number): void }", "A, B", "{ base: string }", "{ extra?: number }"),
    ("lit", "'small' | 'large'", "number", "{ (e: 'input'): void; (e: 'blur'): void }", "A = 'a', B = 'b'", "{ base: number; more: boolean }", "{ extra: () => void }"),
    ("bool", "boolean", "Date", "(e: 'open' | 'close') => void", "A = 1, B = 'b'", "{ other: string[] }", "{ base: symbol }"),
    ("arr", "string[]", "boolean | null", "{ close: []; pick: [id: number] }", "Z", "Record<string, number>", "{}"),
    ("fn", "() => void", "{ nested: number }", "{ (e: Size2): void }", "A = 'x'", "Pick<Model, 'value'>", "Partial<Model>"),
    ("obj", "{ a: 1 }", "any", "BaseEv & { (e: 'more'): void }", "A", "Model", "{ size: Size }"),
    ("union", "string | number | boolean", "string | undefined", "BaseEv", "B = 2", "{ base?: Size }", "{ value: bigint }"),
    ("ref", "Other", "Other['x']", "{ (e: Kind): void }", "A = 'k'", "Other", "{ x: number }"),
]
for n, size, val, ev, kind, base, extra in tvars:
    w(f"names-clash/types-{n}.tsx", hdr + "\n".join([
        f"type Size = {size};", "type Size2 = 'two' | 'deux';", "type Other = { x: string; y?: Size };", f"interface Model {{ value: {val}; label?: string }}",
        "type BaseEv = { (e: 'base'): void };", f"type Ev = {ev};", f"enum Kind {{ {kind} }}", f"type Base = {base};", f"type Extra = {extra};",
        "const C = defineComponent((p: { size: Size; model: Model; m: Model['value']; k?: Kind; o: Other }, c: SetupContext<Ev>) => () => <div class={p.size}>{p.m}</div>);",
        "const D = defineComponent((p: Base & Extra) => {});",
        "const E = defineComponent(({ size = undefined, model }: { size?: Size; model?: Model } ) => {});",
        "function scoped() { type Size = Model; return defineComponent((p: { size: Size; again: Other['y'] }) => {}); }",
        "const bad = <input v-model=\"value\" />;", "const F = defineComponent((p: Size extends string ? Base : Extra) => {});", "const tail = <Comp v-slots={s}>{k}</Comp>;",
    ]), '{"resolveType":true,"optimize":true}')
cvars = [
    ("imported", "import { Comp, foo, Fragment as F2 } from './lib';\nimport { Fragment, KeepAlive } from 'vue';"),
    ("local", "const Comp = {}, foo = () => 1;\nfunction Fragment() {}\nconst KeepAlive = {};"),
    ("unresolved", "// nothing is declared or imported here"),
    ("vue-ns", "import * as Vue from 'vue';\nconst { Fragment } = Vue;\nlet Comp, foo;"),
    ("shadow", "import { Comp } from './lib';\nfunction wrap(Comp, foo, Fragment) { return <Comp>{foo}<Fragment>{foo}</Fragment></Comp>; }"),
    ("helpers-taken", "import { createVNode as _createVNode, Fragment as _Fragment, resolveComponent as _resolveComponent } from 'vue';\nconst _isSlot = 1, _slot = 2, Comp = 3;"),
]
for n, pre in cvars:
    w(f"names-clash/comps-{n}.jsx", pre + "\n" + "\n".join([
        "const a = <Comp>{foo}</Comp>;", "const b = <Comp>{foo()}</Comp>;", "const c = <Fragment><Comp a={foo} /></Fragment>;", "const d = <KeepAlive><Comp>{bar}</Comp></KeepAlive>;",
        "const e = <><Comp v-slots={foo}>{foo}</Comp></>;", "const f = () => <Comp>{foo}{bar}</Comp>;", "foo = <Comp>{foo}</Comp>;", "const g = <x-comp><comp>{foo}</comp></x-comp>;", "const bad = <div v-html />;", "const h = <Comp>{() => foo}</Comp>;",
    ]))
dvars = [
    ("vue", "import { defineComponent, type SetupContext } from 'vue';"),
    ("alias", "import { defineComponent as dc, type SetupContext } from 'vue';\nconst defineComponent = (x: unknown) => x;"),
    ("local", "function defineComponent(x: unknown) { return x }\ntype SetupContext<T> = T;"),
    ("other", "import { defineComponent, type SetupContext } from 'not-vue';"),
    ("ns", "import * as Vue from 'vue';\nconst defineComponent = Vue.defineComponent;\ntype SetupContext<T> = Vue.SetupContext<T>;"),
]
for n, pre in dvars:
    w(f"names-clash/define-{n}.tsx", pre + "\n" + "\n".join([
        "interface Props { a: string; b?: number }", "type Ev = { (e: 'go'): void };",
        "export const A = defineComponent((p: Props, c: SetupContext<Ev>) => () => <div>{p.a}</div>);",
        "export const B = defineComponent((p: Props = { a: 'x' }) => {});",
        "function inner(defineComponent: any) { return defineComponent((p: Props) => {}); }",
        "export default defineComponent((p: { inline: boolean }) => {}, { name: 'N' });",
    ]), '{"resolveType":true,"optimize":true}')

# ---- L. (after S52) the same key twice among several distinct ones, for everything that ends up in a keyed
# collection: a de-duplication step is where an unordered container is most tempting
w("dups/vmodels.jsx", "\n".join([
    'const a = <Comp v-models={[[x], [y]]} />;',
    'const b = <Comp v-models={[[x, "foo"], [y, "foo"], [z, "bar"], [w]]} />;',
    'const c = <input v-models={[[x, "a"], [y, "b"], [z, "a"], [u, "c"], [v, "b"], [t, "d"]]} />;',
    'const d = <Comp v-models={[[x, dyn], [y, dyn], [z, "s"], [w, "s"], [q]]} />;',
    'const e = <Comp v-model={x} v-model={y} v-model:foo={z} v-model:foo={w} v-model:bar={u} />;',
    'const f = <Comp v-models={[[x, "a", ["m"]], [y, "a", ["n"]], [z, "b"], [z2, "c"], [z3, "d"], [z4, "e"]]} />;',
    'const g = <input v-model={x} v-models={[[y], [z, "value"], [w, "value"]]} />;',
    'const h = <Comp v-models={[[x], [y], [z], [w, "k1"], [w, "k2"], [w, "k3"], [w, "k4"]]} />;',
]))
w("dups/attrs.jsx", "\n".join([
    'const a = <div a={1} b={2} a={3} c={4} b={5} d={6} e={7} a="8" />;',
    'const b = <Comp a={1} b={2} a={3} c={4} b={5} d={6} e={7} a="8">{k}</Comp>;',
    'const c = <div class="a" style={s} class={b} onClick={f} style="c" onClick={g} class={[d]} onClick={h} onInput={i} />;',
    'const d = <div {...{ a: 1, b: 2, a: 3, c: 4, b: 5, d, e, d }} {...{ f, g, f }} />;',
    'const e = <div on={o1} on={o2} nativeOn={n1} on={{ click: f, click: g, input: h }} />;',
    'const f = <div a={x} {...s} a={y} {...s} a={z} b={w} />;',
    'const g = <Comp key="k" key={k2} ref="r" ref={r2} v-slots={s1} v-slots={s2}>{k}</Comp>;',
    'const h = <div onUpdate:modelValue={f} modelValue={m} onUpdate:modelValue={g} modelValue={n} v-model={o} />;',
]))
w("dups/directives.jsx", "\n".join([
    'const a = <div v-show={x} v-show={y} v-custom={z} v-custom={w} v-other:arg={u} v-other:arg2={v} />;',
    'const b = <div v-foo_a_b_a_c_b_d={x} />;', 'const c = <div v-foo={[x, "arg", ["m", "n", "m", "o", "n", "p"]]} />;',
    'const d = <input v-model_trim_lazy_trim_number_lazy={x} />;', 'const e = <Comp v-model:val_a_b_a_c={x} />;',
    'const f = <div v-html={h1} v-html={h2} v-text={t1} v-text={t2} innerHTML={h3} />;',
    'const g = <div v-a={1} v-b={2} v-a={3} v-c={4} v-b={5} v-d={6} vA={7} />;',
]))
w("dups/types.tsx", hdr + "\n".join([
    "interface Dup { a: string; b: number; a: boolean; c: Date; b: string[]; d?: symbol; e: 1; d: 2 }",
    "interface Merge { a: string; m1: number } interface Merge { a: number; m2: string } interface Merge { m1: boolean; m3: null; m4: 4; m5: 5 }",
    "type U = 'a' | 'b' | 'a' | 'c' | 'b' | 'd' | 'e' | 'f';", "type Ev = { (e: 'change', v: string): void; (e: 'input'): void; (e: 'change', v: number): void; (e: 'blur'): void; (e: 'input', x: 1): void; (e: 'focus'): void; (e: 'k'): void };",
    "interface EvBase { (e: 'change'): void; (e: 'base'): void } interface EvExt extends EvBase { (e: 'change'): void; (e: 'ext'): void; (e: 'base', x: 1): void; (e: 'more'): void }",
    "const A = defineComponent((p: Dup, c: SetupContext<Ev>) => {});", "const B = defineComponent((p: Merge, c: SetupContext<EvExt>) => {});",
    "const C = defineComponent((p: Pick<Dup, 'a' | 'a' | 'b' | 'c' | 'b'> & Omit<Merge, 'a' | 'a'>, c: SetupContext<(e: U) => void>) => {});",
    "const D = defineComponent((p: { k: U; a?: string; b?: number } = { a: 'x', b: 1, a: 'y', zz: 1, yy: 2, xx: 3, ww: 4, vv: 5, zz: 6 }) => {});",
    "const E = defineComponent((p: { a?: string } = { a: 'x', b: 1, c: 2, d: 3, e: 4, f: 5, g() {}, get h() { return 1 } }) => {});",
    "const F = defineComponent((p: Dup & Merge & Dup, c: SetupContext<{ change: []; input: [x: number]; change: [y: string]; blur: []; focus: []; k: [] }>) => {});",
    "const G = defineComponent((p: { u: U; v: 'x' | 1 | 'x' | true | 1 | null }) => {});",
    # (after S72) a repeated declaration of one prop that ADDS several runtime types at once
    "interface Wide { v: string; w: Date; v: number | boolean | (() => void) | symbol; w: string[] | null | bigint | object }",
    "interface WideBase { v: string; k?: 1 } interface WideExt extends WideBase { v: number | boolean | Date | RegExp | Map<string, number>; k: 'a' | true | null | 2n }",
    "const H = defineComponent((p: Wide) => {});", "const I = defineComponent((p: WideExt) => {});",
    "const J = defineComponent((p: { v: string } & { v: number | boolean | object | symbol } & { v: Function | Date | string[] | Promise<void> }) => {});",
    "const K = defineComponent((p: { m(): void; m: string | number | boolean | null; get g(): number; g: string | Date | RegExp }) => {});",
]), '{"resolveType":true,"optimize":true}')
w("dups/imports.jsx", "\n".join([
    "import { Fragment } from 'vue';", "import { Fragment as F2, createVNode, createVNode as cv, resolveComponent } from 'vue';", "import * as V1 from 'vue';", "import * as V2 from 'vue';", "import V3, { withDirectives, vShow, vShow as show2 } from 'vue';",
    "const a = <><Fragment><F2>{x}</F2></Fragment></>;", "const b = <Comp v-show={s}>{y}</Comp>;", "const c = <KeepAlive><A>{z}</A></KeepAlive>;", "const d = <div {...p} {...q} class={c1} />;",
]))

# ---- M. (after S50) a component that needs a temporary / a captured copy, in every syntactic position an
# expression can occupy - one module per position, so that a position the pass mishandles is a module that fails
slot = "<A>{foo()}</A>"
cap = "<B>{x}</B>"
positions = {
    "arrow-expr-param-default": f"const f = (a = {slot}) => a;",
    "arrow-block-param-default": f"const f = (a = {slot}) => {{ return a; }};",
    "arrow-block-two-defaults": f"const f = (a = {slot}, b = {slot}) => {{ const c = {slot}; return [a, b, c]; }};",
    "arrow-destructured-default": f"const f = ({{ a = {slot}, b: [c = {slot}] }}) => {{ return a; }};",
    "arrow-nested-block-in-expr": f"const pre = {slot}; const f = () => <L>{{items.map((i) => {{ return <I>{{fmt(i)}}</I>; }})}}</L>;",
    "function-param-default": f"function f(a = {slot}, {{ b = {slot} }} = {{}}) {{ return a; }}",
    "function-expr-param-default": f"const f = function (a = {slot}) {{ return {slot}; }};",
    "method-param-default": f"const o = {{ m(a = {slot}) {{ return a; }}, get g() {{ return {slot}; }}, set s(v = {slot}) {{}} }};",
    "class-members": f"class K {{ f = {slot}; static s = {slot}; #p = {slot}; m(a = {slot}) {{ return {slot}; }} static {{ init({slot}); }} constructor(a = {slot}) {{ this.a = a; }} }}",
    "class-extends": f"class K extends mix({slot}) {{ m() {{ return {slot}; }} }}",
    "async-generator": f"async function* g(a = {slot}) {{ yield {slot}; const r = await {slot}; yield* [{slot}]; return r; }}",
    "template-and-tagged": f"const t = `a${{{slot}}}b${{{slot}}}`; const u = tag`x${{{slot}}}`;",
    "conditions-and-loops": f"if ({slot}) {{ r = {slot}; }} else r = {slot}; while (cond({slot})) {{ break; }} do {{ r = {slot}; }} while (cond({slot})); for (let i = {slot}; i < n({slot}); i = next({slot})) {{ r = {slot}; }} for (const k in obj({slot})) {{ r = {slot}; }} for (const v of list({slot})) r = {slot};",
    "switch-throw-try": f"switch (sel({slot})) {{ case key({slot}): r = {slot}; break; default: r = {slot}; }} try {{ throw {slot}; }} catch (e) {{ r = {slot}; }} finally {{ r = {slot}; }}",
    "operators": f"const o1 = cond ? {slot} : {slot}; const o2 = a && {slot} || {slot}; const o3 = a ?? {slot}; const o4 = ({slot}, {slot}); const o5 = [{slot}, ...[{slot}]]; const o6 = {{ a: {slot}, ...spread({slot}), b: [{slot}] }}; const o7 = fn({slot})?.m({slot}); const o8 = new K({slot}); const o9 = typeof {slot}; r ??= {slot}; r ||= {slot};",
    "export-default-arrow": f"export default (a = {slot}) => {{ return {slot}; }};",
    "export-default-expr": f"export default {slot};",
    "labels-blocks": f"outer: {{ const a = {slot}; inner: for (;;) {{ const b = {slot}; break outer; }} }} {{ {{ const c = {slot}; }} }}",
    "iife": f"const r = (() => {{ const a = {slot}; return (function () {{ return {slot}; }})(); }})(); (function (a = {slot}) {{}})();",
    "capture-in-arrow-default": f"x = 0; const f = (p = (x = {cap})) => {{ return p; }};",
    "capture-nested": f"x = 1; function f() {{ x = {cap}; return () => {{ x = {cap}; return (q = (x = {cap})) => q; }}; }}",
    "capture-after-unrelated": f"x = 1; y = 2; const v = <C>{{x}}</C>; const w = <C>{{y}}</C>; y = <C>{{y}}</C>; x = <C>{{y}}</C>;",
    "slot-and-capture-mixed": f"x = 0; const f = (a = {slot}, b = (x = {cap})) => {{ const c = {slot}; return () => (x = {cap}); }};",
}
for n, body in positions.items():
    w(f"positions/{n}.jsx", body)
w("positions/all-in-one.jsx", "\n".join(b for n, b in positions.items() if not n.startswith("export-default")))

# ---- N. (after S55) degenerate but legal programs: nothing, or only one kind of thing, at module level and inside
# function bodies and blocks (each also runs as a Script where it has no import/export)
degenerate = {
    "only-directive": "'use strict';",
    "only-directives": "'use client';\n'use strict';\n\"use asm\";",
    "directive-then-jsx": "'use client';\nconst a = <A>{foo()}</A>;",
    "directives-then-import-then-jsx": "'use client';\n'use strict';\nimport { h } from 'vue';\nexport default <A>{foo()}</A>;",
    "fn-only-directive": "function f() { 'use strict' }\nconst g = () => { 'use strict'; };\nclass K { m() { 'use strict' } static { 'x'; } }",
    "fn-directive-then-jsx": "function f() { 'use strict'; return <A>{foo()}</A>; }\nconst g = function () { 'use strict'; 'second'; const a = <B>{bar()}</B>; return a; };",
    "blocks-of-strings": "{ 'a'; 'b'; }\nif (c) { 'only'; }\nswitch (k) { case 1: 'one'; 'two'; default: 'd'; }\nlabel: { 'x' }\nfor (;;) { 'loop'; break; }",
    "only-comments": "// nothing here\n/* @jsx h */\n/** doc */",
    "only-imports": "import 'side-effect';\nimport { Fragment } from 'vue';\nimport * as V from 'vue';",
    "only-exports": "export {};\nexport * from './x';\nexport { a as b } from './y';",
    "only-types": "type A = string;\ninterface B { a: A }\ndeclare const c: B;\nexport type { B };",
    "single-expression": "<A>{foo()}</A>",
    "single-parenthesised": "(<A>{foo()}</A>);",
    "empty-statements": ";;;\n{}\n;",
    "empty-functions": "function f() {}\nconst g = () => {};\nclass K { m() {} static {} }\nconst o = { m() {}, get g() { return 1 } };",
    "whitespace-only": "\n\n   \n",
    "hashbang": "#!/usr/bin/env node\nconst a = <A>{foo()}</A>;",
    "jsx-only-in-dead-code": "if (false) { <A>{foo()}</A> }\nfunction never() { return; <B>{bar()}</B> }",
}
for n, body in degenerate.items():
    ext = "tsx" if n == "only-types" else "jsx"
    w(f"degenerate/{n}.{ext}", body)

# ---- O. (after S58) pattern lists whose elements are textual variants of one another: delimiters, flags written
# inline or JS-style, case, anchors, surrounding blanks. Each is a valid regex for the `regex` crate as it stands
# (`/^x-/i` is a pattern that can never match); state keyed by a normalised form of a pattern shows when two of
# these meet in one process
variant_src = "\n".join([
    "const a = <x-foo>{k}</x-foo>;", "const b = <X-Foo>{k}</X-Foo>;", "const c = <xx-foo>{k}</xx-foo>;", "const d = <x-foo-bar a={1}>{k}<X-BAR>{j}</X-BAR></x-foo-bar>;",
    "const e = <my-x- p={q}>{k}</my-x->;", "const f = <Comp><x->{k}</x-></Comp>;",
])
variants = {
    "plain": '["^x-"]', "slashes": '["/^x-/"]', "slashes-i": '["/^x-/i"]', "inline-i": '["(?i)^x-"]', "upper": '["^X-"]', "anchored": '["^x-$"]',
    "blank-before": '[" ^x-"]', "group": '["(^x-)"]', "noncapturing": '["(?:^x-)"]', "class": '["^[x]-"]', "escaped": '["^x\\\\-"]', "alt": '["^x-|^x-"]',
    "two-same": '["^x-","^x-"]', "plain-then-i": '["^x-","(?i)^x-"]', "i-then-plain": '["(?i)^x-","^x-"]', "flags-x": '["(?x) ^ x -"]',
}
for n, pats in variants.items():
    w(f"patterns-variants/v-{n}.jsx", variant_src, '{"optimize":true,"customElementPatterns":' + pats + '}')

# ---- P. (after S56) declaration merging across several blocks, with qualified references into the merged thing
w("namespaces/merged.tsx", hdr + "\n".join([
    "namespace Foo { export interface Props { label: string } export type Ev = { (e: 'a'): void }; export type Size = 'foo-1' }",
    "namespace Foo { export interface Props { size: number } export type Ev2 = { (e: 'b'): void }; export namespace Inner { export interface Props { deep1: string } } }",
    "namespace Foo { export interface Props { third: boolean } export namespace Inner { export interface Props { deep2: number } } }",
    "declare module 'm' { export interface Props { fromModule: string } }", "declare module 'm' { export interface Props { fromModule2: string } }",
    "declare global { namespace G { interface Props { g1: string } } }", "declare global { namespace G { interface Props { g2: string } } }",
    "enum E { A = 'a' } enum E { B = 'b' }", "class K { a = 1 } interface K { b: string } namespace K { export interface Props { k: 1 } }",
    "const C = defineComponent((p: Foo.Props, c: SetupContext<Foo.Ev>) => {});", "const D = defineComponent((p: Foo.Inner.Props & Foo.Props) => {});",
    "const F = defineComponent((p: { a: Foo.Props['label']; b: Foo.Size; c: G.Props; d: K.Props; e: E; f: K }) => {});",
    "const H = defineComponent((p: Pick<Foo.Props, 'label' | 'size'> & Partial<Foo.Inner.Props>, c: SetupContext<Foo.Ev & Foo.Ev2>) => {});",
]), '{"resolveType":true,"optimize":true}')

# (after S24) enough distinct names in ONE module to push any bounded process-wide table over its capacity before
# the next transform starts; own option set only (17 000 elements per execution)
w("many/tags-17000.jsx", "\n".join([f"const t{i} = <cust-t{i} a={{x}}>{{k}}</cust-t{i}>;" for i in range(17000)]), '{"optimize":true,"customElementPatterns":["^cust-t1","^x-"]}')
open(os.path.join(root, "many/tags-17000.only-own"), "w").write("")

# ---- Q. fixed counterparts of what only the generator had found (S34, S40, S43, S44, S62): a finding that depends on
# where the generator's PRNG stream happens to go is not a stable detector
# Q1 (S40, S62) pending temporaries x the kind of function nested in the next expression x what that function
# contains x how many temporaries the outer expression still needs afterwards; one module per combination
pend = {1: "const p1 = <A>{t(1)}</A>;", 2: "const p1 = <A>{t(1)}</A>;\nconst p2 = <B>{t(2)}</B>;", 3: "const p1 = <A>{t(1)}</A>, p2 = <B>{t(2)}</B>, p3 = <C>{t(3)}</C>;"}
inner = {"none": "return 1;", "expr-arrow": "return items.map((i) => i.id);", "expr-arrow-slot": "return items.map((i) => <I>{f(i)}</I>);", "block-arrow-slot": "return items.map((i) => { return <I>{f(i)}</I>; });", "two-slots": "const a = <I>{f(1)}</I>; return [a, <J>{f(2)}</J>];"}
def container(kind, body):
    return {"expr-arrow": f"() => wrap(() => {{ {body} }})", "block-arrow": f"() => {{ {body} }}", "fn-expr": f"function () {{ {body} }}", "method": f"{{ m() {{ {body} }} }}", "getter": f"{{ get g() {{ {body} }} }}", "class": f"class {{ m() {{ {body} }} }}"}[kind]
after = {0: "", 1: ", <Z>{t(9)}</Z>", 2: ", <Y>{t(8)}</Y>, <Z>{t(9)}</Z>"}
for pn, ptxt in pend.items():
    for ck in ["expr-arrow", "block-arrow", "fn-expr", "method", "getter", "class"]:
        lines = []
        for ik, itxt in inner.items():
            for an, atxt in after.items():
                lines.append(f"{ptxt}\nconst r = [{container(ck, itxt)}{atxt}];")
        for j, l in enumerate(lines):
            w(f"pending/p{pn}-{ck}-{j:02d}.jsx", l)
            open(os.path.join(root, f"pending/p{pn}-{ck}-{j:02d}.only-own"), "w").write("")
w("pending/arrow-expr-body-after-two.jsx", "const a = <A>{t('a')}</A>;\nconst b = <B>{t('b')}</B>;\nconst render = () => <List>{items.map(item => { return <Item>{format(item)}</Item>; })}</List>;")
w("pending/object-literal-with-method.jsx", "dialog.create({ title: <Title>{t('title')}</Title>, onOk() { return items.map(item => item.id) } });")
# Q2 (S43) the same directive spelling on a component in one module and on a plain element in its sibling
spell = ["v-model:value_trim", "v-model_lazy_number", "vModel:foo_bar", "v-custom:arg_m1_m2", "v-model:value_trim_lazy", "v-show_x", "v-models={[[x, 'value_trim'], [y, 'foo_a_b']]}"]
def use(host, close):
    return "\n".join(f"const d{i} = <{host} {sp if '=' in sp else sp + '={x}'} {close}" for i, sp in enumerate(spell))
w("names-clash/dirs-on-comp.jsx", use("Comp", "/>"))
w("names-clash/dirs-on-elem.jsx", use("input", "/>"))
w("names-clash/dirs-on-custom.jsx", use("x-foo", "></x-foo>"), '{"optimize":true,"customElementPatterns":["^x-"]}')
w("names-clash/dirs-on-member.jsx", use("A.b", "/>"))
# Q3 (S44) Unicode WHITESPACE at the edges of lines that get trimmed, and everywhere else
ws = [" ", "　", " ", " ", " ", "﻿", "​", " ", "\u0085", "&nbsp;", "&#160;", "&#x3000;", "&ensp;"]
w("unicode/whitespace.jsx", "\n".join(
    [f"const a{i} = <p>\n  Price:\n  {c}42 EUR\n</p>;" for i, c in enumerate(ws)]
    + [f"const b{i} = <p>Total{c}\n  next{c}\n  last</p>;" for i, c in enumerate(ws)]
    + [f"const c{i} = <p>{c}\n{c}x{c}\n{c}</p>;" for i, c in enumerate(ws)]
    + [f"const d{i} = <p title=\"{c}two\n{c}lines{c}\n  x\">{c}</p>;" for i, c in enumerate(ws) if not c.startswith('&#x')]))
# Q4 (S34) non-ASCII and empty keys in listener objects and spreads
w("unicode/listener-keys.jsx", "\n".join(
    ["const a = <div on={{ 'événement': h, été: g, '': f, 日本: e, 'ß': d, click: c }} />;", "const b = <Comp nativeOn={{ 'é': h, '': g }} on={{ 'Ünï': f }} />;",
     "const c = <div {...{ 'é': 1, '': 2, 日本: 3 }} on={{ [k]: h, 'x-é': g }} />;", "const d = <div on={{ é() {}, get ü() { return f }, '😀': g }} onÉ={h} on-é={g} />;"]),
  '{"transformOn":true,"optimize":true}')

# ---- R. (after S61) generic setup functions: type parameters whose constraints / defaults refer to each other
gp = ["T extends string", "T extends T", "T = T", "T extends U, U extends T", "T extends U, U extends V, V extends U", "T extends U, U extends U", "T = U, U = V, V = T", "T extends U = V, U extends V, V",
      "T extends { a: T }", "T extends keyof U, U extends Record<string, T>", "T extends Props, U extends T['a']", "T extends Array<T>", "const T extends readonly unknown[]", "T, U = T, V = U", "in out T"]
lines = ["interface Props { a: string; b?: number }", "type Ev = { (e: 'x'): void };"]
for i, g in enumerate(gp):
    lines.append(f"const A{i} = defineComponent(<{g},>(props: T) => {{}});")
    lines.append(f"const B{i} = defineComponent(<{g},>(props: {{ value: T; list: T[]; pick: Pick<Props, 'a'> }}, ctx: SetupContext<T>) => () => <div>{{props.value}}</div>);")
    lines.append(f"const C{i} = defineComponent(function <{g}>(props: Partial<T> & Props, {{ emit }}: SetupContext<Ev>) {{}});")
w("types-cyc/generic-params.tsx", hdr + "\n".join(l for l in lines if "in out" not in l and "const T" not in l), '{"resolveType":true,"optimize":true}')
for i, g in enumerate(gp):
    if "in out" in g: continue
    w(f"types-cyc/generic-param-{i:02d}.tsx", hdr + f"interface Props {{ a: string }}\nconst A = defineComponent(<{g},>(props: T, ctx: SetupContext<T>) => {{}});\nconst B = defineComponent(function <{g}>(props: {{ v: T }}) {{}});", '{"resolveType":true,"optimize":true}')

# ---- S. (after S64) self- and mutually-referential VALUE bindings (they parse; they would only throw when executed),
# and long chains of them, used wherever the pass looks at an expression: attribute values, children, spreads,
# directive values, defaults, slots objects
cyc = {
    "self": "const a = a;", "self-array": "const a = [a];", "self-object": "const theme = { theme, dark: true };", "mutual": "const a = [b];\nconst b = [a];",
    "mutual-objects": "const a = { b };\nconst b = { a, c: 1 };", "three": "const a = b;\nconst b = c;\nconst c = a;", "through-fn": "const a = () => b;\nconst b = () => a;",
    "let-var": "let a = [b];\nvar b = [a];", "exported": "export const a = [b];\nexport const b = { a };", "tail-into-cycle": "const t = [u];\nconst u = [v];\nconst v = [u];",
    "chain-300": "const c0 = 'x';\n" + "\n".join(f"const c{i} = [c{i-1}];" for i in range(1, 300)) + "\nconst a = c299, b = c299;",
    "chain-20000": "const c0 = 'x';\n" + "\n".join(f"const c{i} = [c{i-1}];" for i in range(1, 20000)) + "\nconst a = c19999, b = c19999;",
}
uses = "\n".join(["const u1 = <div id={a} title={b} />;", "const u2 = <Comp p={a} {...b} q={[a, { b }]}>{a}{b}</Comp>;", "const u3 = <div v-show={a} v-custom={[a, b]} class={a} style={b} key={a} ref={b} />;",
                  "const u4 = <Comp v-slots={a}>{b}</Comp>;", "const u5 = <input v-model={a} type={b} />;", "a2 = <Comp>{a}</Comp>;"])
for n, decl in cyc.items():
    w(f"const-cyc/{n}.jsx", decl + "\n" + uses)
    if n == "chain-20000":
        open(os.path.join(root, "const-cyc/chain-20000.only-own"), "w").write("")

# ---- T. (after S65) types whose expansion is a PRODUCT: template literal types with several placeholders that are
# unions, in key / event-name / index position; products of unions through nested Pick / mapped keys
ten = " | ".join(f"'k{i}'" for i in range(10))
w("types/tpl-keys.tsx", hdr + "\n".join([
    f"type Ten = {ten};", "type Two = 'a' | 'b';", "type All = { [K in `${Two}-${Two}`]: string } & { 'a-a': 1; 'on-foo': 2; x: 3 };",
    "const A = defineComponent((p: Pick<All, `${Two}-${Two}`>) => {});", "const B = defineComponent((p: Omit<All, `on-${'foo' | 'bar'}`>) => {});",
    "const C = defineComponent((p: { v: All[`${Two}-a`] }, c: SetupContext<(e: `update:${Two}` | 'close') => void>) => {});",
    "const D = defineComponent((p: Pick<All, `${Ten}${Ten}${Ten}${Ten}${Ten}${Ten}${Ten}${Ten}${Ten}`>) => {});",
    "const E = defineComponent((p: {}, c: SetupContext<{ (e: `${Ten}:${Ten}:${Ten}:${Ten}:${Ten}:${Ten}:${Ten}:${Ten}:${Ten}:${Ten}`): void }>) => {});",
    "const F = defineComponent((p: { v: All[`${Ten}${Ten}${Ten}${Ten}${Ten}${Ten}${Ten}${Ten}${Ten}${Ten}`] }) => {});",
    "type X = `${X}a`;", "const G = defineComponent((p: Pick<All, X>) => {});", "const H = defineComponent((p: Pick<All, `${string}-${number}`>) => {});",
    "const I = defineComponent((p: Record<`${Ten}${Ten}${Ten}${Ten}${Ten}${Ten}${Ten}${Ten}${Ten}`, Ten>) => {});",
    "const J = defineComponent((p: { [K in `${Ten}${Ten}${Ten}${Ten}${Ten}${Ten}${Ten}${Ten}${Ten}`]?: K }) => {});",
]), '{"resolveType":true,"optimize":true}')

# ---- U. (after S66, S68; both from agents who were told what the corpus holds) line-ending conventions and control
# characters written as character references; comments that LEAD a JSX element (on a line of their own)
ctl = ["&#13;", "&#xD;", "&#10;", "&#9;", "&#0;", "&#127;", "&#x2028;", "&#8203;", "&#xFEFF;", "&#x1F600;"]
w("unicode/char-refs.jsx", "\n".join(
    [f"const a{i} = <div>first line{c}</div>;" for i, c in enumerate(ctl)] + [f"const b{i} = <div>{c}after</div>;" for i, c in enumerate(ctl)]
    + [f"const c{i} = <div>x{c}y\n  z{c}\n{c}w</div>;" for i, c in enumerate(ctl)] + [f"const d{i} = <textarea placeholder=\"type here{c}\" title=\"{c}t\" />;" for i, c in enumerate(ctl)]
    + [f"const e{i} = <Comp label=\"{c}\">{c}</Comp>;" for i, c in enumerate(ctl)]))
def rawfile(rel, data):
    pth = os.path.join(root, rel); os.makedirs(os.path.dirname(pth), exist_ok=True); open(pth, "wb").write(data)
body = ["const a = <div>", "hello", "</div>;", "const b = <Comp title=\"two", "lines\">", "text", "  indented", "</Comp>;", "const c = <p>x</p>;"]
rawfile("unicode/eol-cr.jsx", "\r".join(body).encode() + b"\r")
rawfile("unicode/eol-crlf.jsx", "\r\n".join(body).encode() + b"\r\n")
rawfile("unicode/eol-mixed.jsx", (body[0] + "\r" + body[1] + "\r\n" + body[2] + "\n" + body[3] + "\r" + body[4] + "\n\r" + body[5] + " " + body[6] + "\r" + body[7] + "\r\n" + body[8]).encode())
rawfile("unicode/eol-none-at-end.jsx", b"const a = <div>no newline at end</div>;")
w("../state/comments-before-jsx.jsx", "\n".join([
    "const a =", "  /*#__PURE__*/", "  <div>{x}</div>;", "const b =", "  // line comment", "  <A>{foo()}</A>;", "foo(", "  /* arg */", "  <B v-show={s}>{bar()}</B>,", "  /** @__PURE__ */", "  <></>", ");",
    "/* statement starts with JSX */", "<C>{baz()}</C>;", "/*#__PURE__*/", "<D/>;", "const c = <E>{", "  /* child lead */", "  <F>{q()}</F>", "}</E>;", "const d = cond ?", "  /* cons */", "  <G/> :", "  /* alt */", "  <H>{r()}</H>;",
    "export default (", "  /* @jsx notAPragmaHere */", "  <I a={", "    // attr value lead", "    <J/>", "  } />", ");",
]))

# ---- V. the same few things again and again in one small module (the complement of grid/many: a memo is HIT on
# repeats; a task parked between the two halves of a hit is what a table that is emptied meanwhile hurts)
rep_lines = []
for r in range(6):
    rep_lines += [f"const a{r} = <div title=\"same title\" class=\"box\">same text\n   continued</div>;", f"const b{r} = <x-rep v-custom:arg_m={{v}} a=\"same title\">same text</x-rep>;", f"const c{r} = <Comp v-model:val_trim={{m}} label=\"same title\">{{k}}same text</Comp>;"]
w("multi/repeats.jsx", "\n".join(rep_lines), '{"optimize":true,"customElementPatterns":["^x-"]}')
w("multi/repeats-types.tsx", hdr + "type P = { a: string; b?: number }; type E = { (e: 'x'): void };\n" + "\n".join(f"const C{r} = defineComponent((p: P & {{ a: P['a'] }}, c: SetupContext<E>) => () => <div title=\"same title\">same text</div>);" for r in range(6)), '{"resolveType":true,"optimize":true}')
print("generated under", os.path.normpath(root))
