#!/bin/bash
# Confirms a sub-agent's seeded change in its scratch worktree: (1) patch.diff equals the worktree's source diff,
# (2) the 81 tests pass with it, (3) the demonstration fails with it, (4) passes without it.
# usage: tools/confirm_seed.sh /tmp/wtXX
wt="$1"; cd "$wt" || exit 2
export CARGO_NET_OFFLINE=true
echo "== $wt"
if git diff --quiet -- visitor/src plugin/src; then git apply _seed/patch.diff || { echo "patch does not apply"; exit 2; }; fi
diff <(git diff -- visitor/src plugin/src) _seed/patch.diff >/dev/null && echo "patch.diff == worktree diff" || echo "NOTE: patch.diff differs from worktree diff"
echo "-- suite with change:"; cargo nextest run --workspace --no-fail-fast --offline 2>&1 | grep -E "Summary|passed|failed" | tail -2
echo "-- demo with change:"; bash _seed/run.sh >/tmp/confirm_demo.log 2>&1; echo "exit=$?"; grep -E "test result|panicked|FAILED|failed" /tmp/confirm_demo.log | head -5
git apply -R _seed/patch.diff || { echo "cannot revert"; exit 2; }
echo "-- demo without change:"; bash _seed/run.sh >/tmp/confirm_demo.log 2>&1; echo "exit=$?"; grep -E "test result" /tmp/confirm_demo.log | head -3
git apply _seed/patch.diff
git status --short | head -5
