#!/bin/bash
# Applies every seeded change under /verif/seeded to $REPO (the rebased patch where one exists), runs the quick
# check, undoes it, and prints one line per change: exit code (1 = caught) and the strata that reported it.
# usage: tools/run_seeded.sh [id-prefix ...]      (takes about 1.5 min per change; $REPO must be clean)
set -u
VERIF="$(cd "$(dirname "${BASH_SOURCE[0]}")/.." && pwd)"; cd "$VERIF"
REPO="${VERIF_REPO:-/repo}"; export VERIF_REPO="$REPO"
if [ -n "$(git -C $REPO status --porcelain)" ]; then echo "$REPO is not clean"; exit 2; fi
sel=("$@"); fail=0
for d in seeded/*/; do
  id="$(basename "$d")"
  if [ ${#sel[@]} -gt 0 ]; then ok=0; for s in "${sel[@]}"; do [[ "$id" == "$s"* ]] && ok=1; done; [ $ok -eq 1 ] || continue; fi
  p="$(ls "$d"patch.rebased-*.diff 2>/dev/null | tail -1)"; [ -z "$p" ] && p="${d}patch.diff"
  if ! git -C $REPO apply --check "$(realpath "$p")" 2>/dev/null; then echo "$id: does not apply to $REPO HEAD (see meta.json)"; continue; fi
  git -C $REPO apply "$(realpath "$p")"
  t0=$(date +%s)
  out="$(./check C08 --tier quick --no-evidence --run-timeout 25 --first-only 2>&1)"; rc=$?
  t1=$(date +%s)
  git -C $REPO checkout -q -- . ; git -C $REPO clean -fdq visitor plugin
  strata="$(echo "$out" | grep -E "^--- " | sed -E 's/^--- ([DTR]) violated.*\(([a-z-]+)[^)]*\), found in stratum ([a-z]+)/\1:\3/' | sort | uniq -c | awk '{printf "%s x%s  ", $2, $1}')"
  herr="$(echo "$out" | grep -c "^HARNESS-ERROR")"
  [ "$rc" -ne 1 ] && fail=1
  echo "$id: exit=$rc [$((t1-t0))s] harness-errors=$herr  $strata"
  rm -f "$VERIF"/replays/C08-*.json
done
"$VERIF/check" --build-only
exit $fail
