#!/bin/bash
# tools/try_seed.sh <patch.diff>...: apply to $REPO, run the quick check, undo. Prints exit code and first violations.
set -u
VERIF="$(cd "$(dirname "${BASH_SOURCE[0]}")/.." && pwd)"; cd "$VERIF"
REPO="${VERIF_REPO:-/repo}"; export VERIF_REPO="$REPO"
for p in "$@"; do
  if [ -n "$(git -C $REPO status --porcelain)" ]; then echo "$REPO is not clean"; exit 2; fi
  git -C $REPO apply "$(realpath "$p")" || { echo "$p: does not apply"; continue; }
  t0=$(date +%s)
  out="$(./check C08 --tier ${TIER:-quick} --no-evidence --run-timeout ${RUN_TIMEOUT:-25} ${EXTRA:-} 2>&1)"; rc=$?
  t1=$(date +%s)
  git -C $REPO checkout -q -- . ; git -C $REPO clean -fdq visitor plugin
  echo "$p: exit=$rc [$((t1-t0))s]"
  echo "$out" | grep -E "^(--- |VIOLATION|HARNESS|KNOWN)" | head -${LINES_SHOWN:-8} | cut -c1-260
  rm -f "$VERIF"/replays/C08-*.json
done

# leave the simulator binary built against the clean tree
"$VERIF/check" --build-only
