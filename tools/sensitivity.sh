#!/bin/bash
# Applies each patch under /verif/sensitivity (or the ones named) to $REPO, confirms the baseline
# suite still passes, runs the quick check, and reverts. D*/R*/T* must be caught (exit 1),
# B* (benign: behaviour changes or refactorings under which C08 still holds) must stay silent (exit 0).
# usage: tools/sensitivity.sh [patch ...]
set -u
VERIF="$(cd "$(dirname "${BASH_SOURCE[0]}")/.." && pwd)"
REPO="${VERIF_REPO:-/repo}"; export VERIF_REPO="$REPO"
export CARGO_NET_OFFLINE=true
cd "$VERIF"
if [ -n "$(git -C $REPO status --porcelain --untracked-files=no)" ]; then echo "$REPO is not clean"; exit 2; fi
patches=("$@"); [ ${#patches[@]} -eq 0 ] && patches=(sensitivity/*.diff)
fail=0
for p in "${patches[@]}"; do
  name="$(basename "$p" .diff)"
  git -C $REPO apply "$VERIF/$p" 2>/dev/null || git -C $REPO apply "$p" || { echo "$name: patch does not apply"; fail=1; continue; }
  tests="$(cd $REPO && cargo nextest run --workspace --no-fail-fast --offline 2>&1 | grep -E "^\s+Summary" | sed 's/^ *//')"
  t0=$(date +%s)
  out="$(./check C08 --tier quick --no-evidence --run-timeout 25 --first-only 2>&1)"; rc=$?
  t1=$(date +%s)
  git -C $REPO checkout -q -- . ; git -C $REPO clean -fdq visitor plugin
  first="$(echo "$out" | grep -m1 -E "^--- " | cut -c1-150)"
  nviol="$(echo "$out" | grep -c "^VIOLATION")"
  case "$name" in
    B*) want=0;; *) want=1;;
  esac
  verdict=ok; [ "$rc" -ne "$want" ] && { verdict=WRONG; fail=1; }
  echo "$name: exit=$rc (want $want) $verdict  violations=$nviol  ${first}  [$((t1-t0))s; tests: $tests]"
  rm -rf "$VERIF"/replays/C08-*.json 2>/dev/null
done
"$VERIF/check" --build-only; exit $fail

# leave the simulator binary built against the clean tree
"$VERIF/check" --build-only
