#!/usr/bin/env python3
"""Rewrites uses of std::sync in the given Rust files to ::verif_sync (tools/instrument_repo.sh).
Handles the direct path (`std::sync::Mutex`, `use std::sync::{..}`) and the `sync` item of a grouped
import (`use std::{cell::Cell, sync::{Mutex, OnceLock}};`). Prints the number of files changed."""
import re, sys

DIRECT = re.compile(r'(^|[^:A-Za-z0-9_])std::sync\b', re.M)

def split_top(s):
    """split a brace-group body at top-level commas"""
    out, depth, cur = [], 0, ''
    for ch in s:
        if ch == '{': depth += 1
        if ch == '}': depth -= 1
        if ch == ',' and depth == 0:
            out.append(cur); cur = ''
        else:
            cur += ch
    if cur.strip(): out.append(cur)
    return out

def grouped(text):
    res, i = '', 0
    for m in re.finditer(r'(?m)^(\s*)(pub(?:\([^)]*\))?\s+)?use\s+std::\{', text):
        start = m.end()            # just after '{'
        depth, j = 1, start
        while j < len(text) and depth:
            if text[j] == '{': depth += 1
            elif text[j] == '}': depth -= 1
            j += 1
        if depth: continue
        body = text[start:j-1]
        k = j
        while k < len(text) and text[k] in ' \t': k += 1
        if k >= len(text) or text[k] != ';': continue
        items = split_top(body)
        sync = [it for it in items if re.match(r'\s*sync\b', it)]
        if not sync or m.start() < i: continue
        rest = [it for it in items if not re.match(r'\s*sync\b', it)]
        indent, vis = m.group(1), m.group(2) or ''
        new = ''
        if rest:
            new += f"{indent}{vis}use std::{{{','.join(rest)}}};\n"
        for it in sync:
            new += f"{indent}{vis}use ::verif_sync{it.strip()[4:]};\n"
        res += text[i:m.start()] + new.rstrip('\n')
        i = k + 1
    return res + text[i:]

changed = 0
for path in sys.argv[1:]:
    src = open(path).read()
    new = grouped(src)
    new = DIRECT.sub(lambda m: m.group(1) + '::verif_sync', new)
    if new != src:
        open(path, 'w').write(new); changed += 1
print(changed)
