import { createVNode as _createVNode, isVNode as _isVNode } from "other";
let _slot = 1, _isSlot = 2, _Fragment = 3, _slot2 = 4, _transformOn = 5, s = 6, _x = 7;
function f(_createTextVNode, _resolveComponent) {
  return <A on={o}>{g()}</A>;
}
const z = () => <><B>{h()}</B> t</>;
let x;
x = <C>{x}</C>;
_createVNode(_slot, _isSlot, _Fragment, _slot2, _transformOn, s, _x, _isVNode);
