/**
 * @jsx custom.h
 */
const a = <div v-show={s}>{x}</div>;
