import { ref } from "vue";
const a = <div>first</div>;
/* @jsx late */
const b = <div>second</div>;
/* not a pragma */
const c = <p>third</p>;
/* @jsx later */ export const d = <p>fourth</p>;
