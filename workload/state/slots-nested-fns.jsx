function outer() {
  function inner() {
    return <A>{a()}</A>;
  }
  const arrow = () => () => <B>{b()}</B>;
  return <C>{inner()}</C>;
}
const top = <D>{<E>{e()}</E>}</D>;
export default () => <F>{outer()}</F>;
