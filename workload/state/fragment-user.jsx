import { Fragment } from "other";
import { Fragment as F2 } from "vue";
const a = <Fragment>{x}</Fragment>;
const b = <F2>{x}</F2>;
const c = <></>;
const d = <Fragment><F2><></></F2></Fragment>;
