// @jsx lineH
const a = <div>{x}</div>;
