import { defineComponent, SetupContext } from "vue";
import type { Ext } from "./ext";
const A = defineComponent((p: Ext) => () => <div v-html />);
const B = defineComponent((p: Unknown<1>, c: SetupContext<Ext>) => {});
const C = defineComponent((p: string) => {});
const D = defineComponent((p: { [a + b]: 1 }) => {});
const E = defineComponent((p: Pick<{ a: 1 }, number>) => {});
const F = defineComponent((p: Ext["k"]) => <input v-model />);
