const a = <div v-html />;
const b = <div v-text />;
const c = <input v-model />;
const d = <input v-model="s" />;
const e = <A v-models />;
const f = <A v-models="s" />;
const g = <A v-models={notArray} />;
const h = <A v-models={[[x]]}>{k()}</A>;
const i = <div v-html />;
