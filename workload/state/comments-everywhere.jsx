// leading line
/* block */ const a = /* inner */ <div /* attr */ a="1">{/* child */}</div>; // trailing
/** doc */
export const b = <A>{/* only comment */}</A>;
/* #__PURE__ */ f(<div/>);
