const a =
  /*#__PURE__*/
  <div>{x}</div>;
const b =
  // line comment
  <A>{foo()}</A>;
foo(
  /* arg */
  <B v-show={s}>{bar()}</B>,
  /** @__PURE__ */
  <></>
);
/* statement starts with JSX */
<C>{baz()}</C>;
/*#__PURE__*/
<D/>;
const c = <E>{
  /* child lead */
  <F>{q()}</F>
}</E>;
const d = cond ?
  /* cons */
  <G/> :
  /* alt */
  <H>{r()}</H>;
export default (
  /* @jsx notAPragmaHere */
  <I a={
    // attr value lead
    <J/>
  } />
);
