import { Fragment } from "vue";
const a = <Fragment>{x}</Fragment>;
const b = <><Fragment key="k">t</Fragment></>;
const c = <A><>{y}</></A>;
