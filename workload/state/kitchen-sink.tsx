/* @jsx h */
import { defineComponent, SetupContext, Fragment } from "vue";
interface P { a: string; b?: number }
type E = { (e: "x" | "y"): void };
const dflt = { b: 1 };
let t;
export default defineComponent((props: P = dflt, { emit }: SetupContext<E>) => {
  t = <A>{t}</A>;
  return () => (
    <Fragment>
      <B on={o} v-show={props.a}>{f()}</B>
      <input v-model={[props.b, ["number"]]} v-html />
      <C>{g()}</C>
      <>text {props.a}</>
    </Fragment>
  );
});
const Other = defineComponent((p: Unknown) => () => <x-el v-custom_m={1}>{p}</x-el>);
