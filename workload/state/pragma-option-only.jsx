const a = <div><A>{f()}</A><></></div>;
