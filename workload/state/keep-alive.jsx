import { KeepAlive } from "vue";
import * as V from "vue";
const a = <KeepAlive>{x}</KeepAlive>;
const b = <V.KeepAlive><A>{f()}</A></V.KeepAlive>;
const c = <keep-alive>{y}</keep-alive>;
