const a = <div on={{ click: f }} nativeOn={{ x: g }} onClick={h} />;
const b = <A on={o} {...rest} on={p} />;
const c = <B on="str" nativeOn />;
