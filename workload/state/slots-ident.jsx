const x = 1;
let y;
const a = <A>{x}</A>;
const b = <B>{y}</B>;
const c = <C>{unresolved}</C>;
y = <D>{y}</D>;
x2 = <E>{x2}</E>;
function f(p) {
  p = <F>{p}</F>;
  return <G>{p}</G>;
}
const g = (q) => (q = <H>{q}</H>);
