let x, z;
x = <C>{x}</C>;
z = 1;
const v = <C>{z}</C>;
const w = () => { x = <D>{x}</D>; return <E>{x}</E>; };
for (x = 0; x < 1; x++) { const u = <F>{x}</F>; }
