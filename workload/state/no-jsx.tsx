import { defineComponent } from "vue";
type A = { a: string };
export const x: A = { a: "1" };
export function f<T>(t: T): T { return t; }
