const a = <x-foo a={b}>{c}</x-foo>;
const b = <ElButton>{d()}</ElButton>;
const c = <my-el v-model={m}>{e}</my-el>;
const d = <foo>{f}</foo>;
