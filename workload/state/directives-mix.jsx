const a = <input v-model={[x, ["trim", "lazy"]]} v-show={s} v-custom:arg_m={[v]} v-html="h" />;
const b = <A v-model={[x, "foo", ["m"]]} v-model:bar_mod={y} v-models={[[z, "baz"], [w]]} v-slots={sl} />;
const c = <select v-model={x}><option v-text={t} /></select>;
const d = <textarea v-model_lazy={x} />;
const e = <input type="checkbox" v-model={x} /> ;
const f = <input type={t} v-model={[x, dyn]} />;
const g = <div v-a v-b={1} v-c:x_y_z={[2, "arg", ["m1"]]} vD />;
