const a = /* @jsx inner */ <div/>;
function f() {
  /* @jsx nested */
  return <p/>;
}
