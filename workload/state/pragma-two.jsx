/* @jsx one */
/* @jsx two */
const a = <div/>;
/* @jsxFrag F */
/*@jsx*/
const b = <></>;
