const z = <A v-show={s}>{t}</A>;
const y = <><input v-model={m} />text</>;
const x = <B {...p} a="1">{() => 1}</B>;
const w = <C v-custom={c}>{f()}</C>;
const v = <select v-model={s2} /> ;
const u = <textarea v-model={s3} />;
const t2 = <input type="radio" v-model={r} />;
const s1 = <input type="checkbox" v-model={r} />;
const r1 = <input type={dyn} v-model={r} />;
