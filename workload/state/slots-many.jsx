const a = <A>{foo()}</A>;
const b = <B>{bar()}</B>;
function f() {
  const c = <C>{baz()}</C>;
  return <D>{qux()}</D>;
}
const g = () => <E>{quux()}</E>;
const h = () => {
  const i = <F>{one()}</F>;
  return [<G>{two()}</G>, <H>{three()}</H>];
};
class K {
  render() {
    return <I>{four()}</I>;
  }
}
const last = <J>{five()}</J>;
