import { defineComponent } from "vue";
const d = { a: 1 };
export default defineComponent((props: { a?: number } = d) => () => <A>{props.a}</A>);
export const Two = defineComponent((props: { b?: string } = other()) => () => <B>{f()}</B>);
const Three = defineComponent(function (props: { c?: boolean } = { ...d }) {});
