/* @jsx h */
import { h } from "vue";
const a = <div>{x}</div>;
const b = <A>{f()}</A>;
const c = <></>;
