const local = 1;
const a = <A>{local}<B>{unres}</B></A>;
const b = <A><B><C>{local}</C></B>{x}</A>;
const c = <A v-slots={{ named: () => 1 }}>{{ default: () => 2 }}</A>;
const d = <A v-slots={s}><b/></A>;
const e = <A>{...local}</A>;
const f = <A>{() => local}</A>;
const g = <div><A>{local}</A></div>;
const h = <><A>{local}</A></>;
