import { defineComponent, SetupContext } from "vue";
type T = T[number];
defineComponent((p: { t: T }) => {});
