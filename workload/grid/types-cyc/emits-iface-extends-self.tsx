import { defineComponent, SetupContext } from "vue";
interface E extends E { (e: 'a'): void }
defineComponent((p: {}, { emit }: SetupContext<E>) => {});
