import { defineComponent, SetupContext } from "vue";
type A = A & A;
defineComponent((p: A) => {});
