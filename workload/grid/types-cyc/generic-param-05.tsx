import { defineComponent, SetupContext } from "vue";
interface Props { a: string }
const A = defineComponent(<T extends U, U extends U,>(props: T, ctx: SetupContext<T>) => {});
const B = defineComponent(function <T extends U, U extends U>(props: { v: T }) {});
