import { defineComponent, SetupContext } from "vue";
type A = Partial<A>;
defineComponent((p: A) => {});
