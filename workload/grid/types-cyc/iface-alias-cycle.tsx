import { defineComponent, SetupContext } from "vue";
interface A extends B {} type B = A;
defineComponent((p: A) => {});
