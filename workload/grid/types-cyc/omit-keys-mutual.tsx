import { defineComponent, SetupContext } from "vue";
type K1 = K2; type K2 = K1; type O = { a: 1 };
defineComponent((p: Omit<O, K1>) => {});
