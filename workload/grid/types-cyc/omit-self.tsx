import { defineComponent, SetupContext } from "vue";
type A = Omit<A, "x">;
defineComponent((p: A) => {});
