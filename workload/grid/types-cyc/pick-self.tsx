import { defineComponent, SetupContext } from "vue";
type A = Pick<A, "x">;
defineComponent((p: A) => {});
