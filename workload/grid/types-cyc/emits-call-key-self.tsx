import { defineComponent, SetupContext } from "vue";
type K = K; type E = { (e: K): void };
defineComponent((p: {}, c: SetupContext<E>) => {});
