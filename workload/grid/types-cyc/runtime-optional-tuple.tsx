import { defineComponent, SetupContext } from "vue";
type P = [P?];
defineComponent((p: { a: P[0] }) => {});
