import { defineComponent, SetupContext } from "vue";
interface Props { a: string }
const A = defineComponent(<T extends keyof U, U extends Record<string, T>,>(props: T, ctx: SetupContext<T>) => {});
const B = defineComponent(function <T extends keyof U, U extends Record<string, T>>(props: { v: T }) {});
