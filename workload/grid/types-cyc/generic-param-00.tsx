import { defineComponent, SetupContext } from "vue";
interface Props { a: string }
const A = defineComponent(<T extends string,>(props: T, ctx: SetupContext<T>) => {});
const B = defineComponent(function <T extends string>(props: { v: T }) {});
