import { defineComponent, SetupContext } from "vue";
interface Props { a: string }
const A = defineComponent(<T = U, U = V, V = T,>(props: T, ctx: SetupContext<T>) => {});
const B = defineComponent(function <T = U, U = V, V = T>(props: { v: T }) {});
