import { defineComponent, SetupContext } from "vue";
interface A extends A {}
defineComponent((p: A) => {});
