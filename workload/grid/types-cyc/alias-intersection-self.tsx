import { defineComponent, SetupContext } from "vue";
type A = A & { x: 1 };
defineComponent((p: A) => {});
