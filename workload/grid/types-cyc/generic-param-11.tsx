import { defineComponent, SetupContext } from "vue";
interface Props { a: string }
const A = defineComponent(<T extends Array<T>,>(props: T, ctx: SetupContext<T>) => {});
const B = defineComponent(function <T extends Array<T>>(props: { v: T }) {});
