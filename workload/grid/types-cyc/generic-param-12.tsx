import { defineComponent, SetupContext } from "vue";
interface Props { a: string }
const A = defineComponent(<const T extends readonly unknown[],>(props: T, ctx: SetupContext<T>) => {});
const B = defineComponent(function <const T extends readonly unknown[]>(props: { v: T }) {});
