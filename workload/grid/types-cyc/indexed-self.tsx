import { defineComponent, SetupContext } from "vue";
type A = A["x"];
defineComponent((p: { a: A }) => {});
