import { defineComponent, SetupContext } from "vue";
interface Props { a: string }
const A = defineComponent(<T extends Props, U extends T['a'],>(props: T, ctx: SetupContext<T>) => {});
const B = defineComponent(function <T extends Props, U extends T['a']>(props: { v: T }) {});
