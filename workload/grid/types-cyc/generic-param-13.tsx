import { defineComponent, SetupContext } from "vue";
interface Props { a: string }
const A = defineComponent(<T, U = T, V = U,>(props: T, ctx: SetupContext<T>) => {});
const B = defineComponent(function <T, U = T, V = U>(props: { v: T }) {});
