import { defineComponent, SetupContext } from "vue";
type A2 = A2; type A = { a: NonNullable<A2> };
defineComponent((p: A) => {});
