import { defineComponent, SetupContext } from "vue";
type A = Required<A>;
defineComponent((p: A) => {});
