import { defineComponent, SetupContext } from "vue";
type A2 = A2;
defineComponent((p: { a: A2 }) => {});
