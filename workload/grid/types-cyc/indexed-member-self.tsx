import { defineComponent, SetupContext } from "vue";
type A = { x: A["x"] };
defineComponent((p: A) => {});
