import { defineComponent, SetupContext } from "vue";
type U = Exclude<U, null>;
defineComponent((p: { a: U }) => {});
