import { defineComponent, SetupContext } from "vue";
type K = K; type O = { a: 1 };
defineComponent((p: Pick<O, K>) => {});
