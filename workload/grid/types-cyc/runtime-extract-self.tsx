import { defineComponent, SetupContext } from "vue";
type U = Extract<string, U>;
defineComponent((p: { a: U }) => {});
