import { defineComponent, SetupContext } from "vue";
type A = A; type E = E;
defineComponent((p: A, c: SetupContext<E>) => {});
defineComponent((p: A) => {});
