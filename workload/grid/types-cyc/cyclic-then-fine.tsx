import { defineComponent, SetupContext } from "vue";
type A = B; type B = A; type Ok = { a: string };
defineComponent((p: A) => {});
const C = defineComponent((p: Ok) => {});
