import { defineComponent, SetupContext } from "vue";
type E = E;
defineComponent((p: {}, c: SetupContext<E>) => {});
