import { defineComponent, SetupContext } from "vue";
type A = { x: 1 } | A;
defineComponent((p: A) => {});
