import { defineComponent, SetupContext } from "vue";
type U = U | string;
defineComponent((p: { a: U }) => {});
