import { defineComponent, SetupContext } from "vue";
type A = B; type B = C; type C = A;
defineComponent((p: A) => {});
