import { defineComponent, SetupContext } from "vue";
interface Props { a: string }
const A = defineComponent(<T = T,>(props: T, ctx: SetupContext<T>) => {});
const B = defineComponent(function <T = T>(props: { v: T }) {});
