import { defineComponent, SetupContext } from "vue";
interface Props { a: string }
const A = defineComponent(<T extends { a: T },>(props: T, ctx: SetupContext<T>) => {});
const B = defineComponent(function <T extends { a: T }>(props: { v: T }) {});
