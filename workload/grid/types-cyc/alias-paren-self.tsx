import { defineComponent, SetupContext } from "vue";
type A = (A);
defineComponent((p: A) => {});
