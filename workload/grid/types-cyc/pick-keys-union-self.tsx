import { defineComponent, SetupContext } from "vue";
type K = "a" | K; type O = { a: 1 };
defineComponent((p: Pick<O, K>) => {});
