import { defineComponent, SetupContext } from "vue";
type A = B; type B = A;
defineComponent((p: A) => {});
