import { defineComponent, SetupContext } from "vue";
interface A extends B { a: 1 } interface B extends A { b: 2 }
defineComponent((p: A) => {});
