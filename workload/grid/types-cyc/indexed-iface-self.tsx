import { defineComponent, SetupContext } from "vue";
interface I { x: I["x"] }
defineComponent((p: I) => {});
