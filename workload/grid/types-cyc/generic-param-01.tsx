import { defineComponent, SetupContext } from "vue";
interface Props { a: string }
const A = defineComponent(<T extends T,>(props: T, ctx: SetupContext<T>) => {});
const B = defineComponent(function <T extends T>(props: { v: T }) {});
