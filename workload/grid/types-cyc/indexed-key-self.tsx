import { defineComponent, SetupContext } from "vue";
type K = K; interface I { a: string }
defineComponent((p: { v: I[K] }) => {});
