import { defineComponent, SetupContext } from "vue";
type E = F; type F = E;
defineComponent((p: {}, c: SetupContext<E>) => {});
