import { defineComponent, SetupContext } from "vue";
interface Props { a: string }
const A = defineComponent(<T extends U = V, U extends V, V,>(props: T, ctx: SetupContext<T>) => {});
const B = defineComponent(function <T extends U = V, U extends V, V>(props: { v: T }) {});
