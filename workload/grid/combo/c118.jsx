import { KeepAlive } from 'vue';
let w; w = <div id={i} v-model={m}>{cond ? <a /> : null}</div>;
