import { KeepAlive } from 'vue';
h(<div {...sp}>{f()}</div>, <Outer a=<div {...sp}>{f()}</div>>{<div {...sp}>{f()}</div>}</Outer>);
