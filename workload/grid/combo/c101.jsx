import { KeepAlive } from 'vue';
export default <foo-bar key={k} ref={r} v-show={s}>{cond ? <a /> : null}</foo-bar>;
