import { KeepAlive } from 'vue';
export default <x-foo a={1} {...sp} b={b} v-text='t'>{() => 1}</x-foo>;
