import { KeepAlive } from 'vue';
class K { m() { return <Comp a=<b/> c={<></>} v-custom:arg_m1_m2={c}>{f()}</Comp>; } }
