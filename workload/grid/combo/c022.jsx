import { KeepAlive } from 'vue';
let w; w = <Comp a={1} {...sp} b={b} v-models={[[p, 'p'], [q, 'q', ['m']]]}><></></Comp>;
