import { KeepAlive } from 'vue';
class K { m() { return <svg v-models={[[p, 'p'], [q, 'q', ['m']]]}>{x}</svg>; } }
