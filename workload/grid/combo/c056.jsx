import { KeepAlive } from 'vue';
h(<svg {...sp} v-show={s}>t {x} <i>{y}</i></svg>, <Outer a=<svg {...sp} v-show={s}>t {x} <i>{y}</i></svg>>{<svg {...sp} v-show={s}>t {x} <i>{y}</i></svg>}</Outer>);
