import { KeepAlive } from 'vue';
const o = { p: <A.b onClick={h} v-custom:arg_m1_m2={c}>t {x} <i>{y}</i></A.b>, q: [<A.b onClick={h} v-custom:arg_m1_m2={c}>t {x} <i>{y}</i></A.b>] };
