import { KeepAlive } from 'vue';
let w; w = <A.b a=<b/> c={<></>} v-show={s}>text</A.b>;
