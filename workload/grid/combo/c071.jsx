import { KeepAlive } from 'vue';
const v = <KeepAlive onClick={h} v-model:arg_mod={m}><></></KeepAlive>;
