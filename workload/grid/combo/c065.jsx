import { KeepAlive } from 'vue';
class K { m() { return <Comp {...sp} v-model={m}>{() => 1}</Comp>; } }
