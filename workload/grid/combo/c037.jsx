import { KeepAlive } from 'vue';
export default <input id="i" v-custom:arg_m1_m2={c}>{f()}</input>;
