import { KeepAlive } from 'vue';
export default <foo-bar a=<b/> c={<></>} v-show={s}>{...rest}</foo-bar>;
