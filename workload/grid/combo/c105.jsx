import { KeepAlive } from 'vue';
class K { m() { return <svg key={k} ref={r} v-slots={sl}>t {x} <i>{y}</i></svg>; } }
