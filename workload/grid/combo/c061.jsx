import { KeepAlive } from 'vue';
const o = { p: <Comp class="c" style={s} v-models={[[p, 'p'], [q, 'q', ['m']]]}>{...rest}</Comp>, q: [<Comp class="c" style={s} v-models={[[p, 'p'], [q, 'q', ['m']]]}>{...rest}</Comp>] };
