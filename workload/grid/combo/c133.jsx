import { KeepAlive } from 'vue';
const v = <input id="i" v-text='t'><B>{y}</B></input>;
