import { KeepAlive } from 'vue';
const v = <foo-bar a={1} {...sp} b={b} v-html={h}>{cond ? <a /> : null}</foo-bar>;
