import { KeepAlive } from 'vue';
const g = () => <x-foo {...sp} v-model:arg_mod={m}>text</x-foo>;
