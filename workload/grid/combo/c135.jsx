import { KeepAlive } from 'vue';
const o = { p: <div a=<b/> c={<></>} v-slots={sl}>{() => 1}</div>, q: [<div a=<b/> c={<></>} v-slots={sl}>{() => 1}</div>] };
