import { KeepAlive } from 'vue';
class K { m() { return <A.b onUpdate:modelValue={u} modelValue={m} v-text='t' />; } }
