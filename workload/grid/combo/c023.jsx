import { KeepAlive } from 'vue';
class K { m() { return <foo-bar a={1} {...sp} b={b}>t {x} <i>{y}</i></foo-bar>; } }
