import { KeepAlive } from 'vue';
export default <x-foo a={1} {...sp} b={b} v-model:arg_mod={m}>{{ default: () => 1, named }}</x-foo>;
