import { KeepAlive } from 'vue';
const v = <input onUpdate:modelValue={u} modelValue={m} v-models={[[p, 'p'], [q, 'q', ['m']]]}>t {x} <i>{y}</i></input>;
