import { KeepAlive } from 'vue';
const o = { p: <div a=<b/> c={<></>} v-model:arg_mod={m}><B>{y}</B></div>, q: [<div a=<b/> c={<></>} v-model:arg_mod={m}><B>{y}</B></div>] };
