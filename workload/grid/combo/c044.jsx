import { KeepAlive } from 'vue';
const v = <x-foo a=<b/> c={<></>} v-model={m}>{x}</x-foo>;
