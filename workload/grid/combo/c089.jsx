import { KeepAlive } from 'vue';
const o = { p: <x-foo v-html={h}>{f()}</x-foo>, q: [<x-foo v-html={h}>{f()}</x-foo>] };
