import { KeepAlive } from 'vue';
h(<input a=<b/> c={<></>} v-custom:arg_m1_m2={c}>{cond ? <a /> : null}</input>, <Outer a=<input a=<b/> c={<></>} v-custom:arg_m1_m2={c}>{cond ? <a /> : null}</input>>{<input a=<b/> c={<></>} v-custom:arg_m1_m2={c}>{cond ? <a /> : null}</input>}</Outer>);
