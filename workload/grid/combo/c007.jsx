import { KeepAlive } from 'vue';
export default <div v-html={h} />;
