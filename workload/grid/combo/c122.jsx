import { KeepAlive } from 'vue';
const g = () => <x-foo id={i} v-html={h}>t {x} <i>{y}</i></x-foo>;
