import { KeepAlive } from 'vue';
export default <x-foo a=<b/> c={<></>} v-models={[[p, 'p'], [q, 'q', ['m']]]}><B>{y}</B></x-foo>;
