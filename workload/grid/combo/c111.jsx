import { KeepAlive } from 'vue';
h(<div key={k} ref={r} v-model:arg_mod={m}>{...rest}</div>, <Outer a=<div key={k} ref={r} v-model:arg_mod={m}>{...rest}</div>>{<div key={k} ref={r} v-model:arg_mod={m}>{...rest}</div>}</Outer>);
