import { KeepAlive } from 'vue';
function f() { return <Comp id="i" v-text='t'>text</Comp>; }
