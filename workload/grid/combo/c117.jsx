import { KeepAlive } from 'vue';
function f() { return <x-foo {...sp} v-models={[[p, 'p'], [q, 'q', ['m']]]}>{cond ? <a /> : null}</x-foo>; }
