import { KeepAlive } from 'vue';
const v = <foo-bar id={i} v-model:arg_mod={m}><b /></foo-bar>;
