import { KeepAlive } from 'vue';
function f() { return <x-foo class="c" style={s} v-show={s}><></></x-foo>; }
