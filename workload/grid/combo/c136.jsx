import { KeepAlive } from 'vue';
const v = <input id={i} v-html={h}><></></input>;
