import { KeepAlive } from 'vue';
const g = () => <input v-text='t'><></></input>;
