import { KeepAlive } from 'vue';
function f() { return <x-foo key={k} ref={r} v-custom:arg_m1_m2={c}><></></x-foo>; }
