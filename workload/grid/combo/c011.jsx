import { KeepAlive } from 'vue';
let w; w = <input {...sp} v-text='t'>{...rest}</input>;
