import { KeepAlive } from 'vue';
class K { m() { return <Comp {...sp}>{{ default: () => 1, named }}</Comp>; } }
