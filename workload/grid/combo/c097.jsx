import { KeepAlive } from 'vue';
const o = { p: <svg class="c" style={s} v-model={m} />, q: [<svg class="c" style={s} v-model={m} />] };
