import { KeepAlive } from 'vue';
function f() { return <A.b v-model:arg_mod={m}>{() => 1}</A.b>; }
