import { KeepAlive } from 'vue';
const o = { p: <KeepAlive key={k} ref={r} v-slots={sl}>{x}</KeepAlive>, q: [<KeepAlive key={k} ref={r} v-slots={sl}>{x}</KeepAlive>] };
