import { KeepAlive } from 'vue';
export default <KeepAlive id={i} v-models={[[p, 'p'], [q, 'q', ['m']]]}>text</KeepAlive>;
