import { KeepAlive } from 'vue';
class K { m() { return <svg id={i} v-html={h}>{...rest}</svg>; } }
