import { KeepAlive } from 'vue';
h(<KeepAlive key={k} ref={r} v-text='t' />, <Outer a=<KeepAlive key={k} ref={r} v-text='t' />>{<KeepAlive key={k} ref={r} v-text='t' />}</Outer>);
