import { KeepAlive } from 'vue';
function f() { return <div a=<b/> c={<></>} v-text='t'><b /></div>; }
