import { KeepAlive } from 'vue';
const g = () => <A.b v-models={[[p, 'p'], [q, 'q', ['m']]]}>{{ default: () => 1, named }}</A.b>;
