import { KeepAlive } from 'vue';
const v = <x-foo a=<b/> c={<></>} />;
