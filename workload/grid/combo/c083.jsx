import { KeepAlive } from 'vue';
const v = <svg onClick={h} v-model={m}>text</svg>;
