import { KeepAlive } from 'vue';
h(<input onClick={h} v-show={s}>{x}</input>, <Outer a=<input onClick={h} v-show={s}>{x}</input>>{<input onClick={h} v-show={s}>{x}</input>}</Outer>);
