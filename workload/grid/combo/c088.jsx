import { KeepAlive } from 'vue';
h(<x-foo id="i" v-models={[[p, 'p'], [q, 'q', ['m']]]}>{...rest}</x-foo>, <Outer a=<x-foo id="i" v-models={[[p, 'p'], [q, 'q', ['m']]]}>{...rest}</x-foo>>{<x-foo id="i" v-models={[[p, 'p'], [q, 'q', ['m']]]}>{...rest}</x-foo>}</Outer>);
