import { KeepAlive } from 'vue';
let w; w = <svg id={i} v-custom:arg_m1_m2={c} />;
