import { KeepAlive } from 'vue';
let w; w = <div key={k} ref={r} v-slots={sl}>{{ default: () => 1, named }}</div>;
