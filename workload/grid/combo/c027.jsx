import { KeepAlive } from 'vue';
const g = () => <input onClick={h} v-slots={sl}>{() => 1}</input>;
