import { KeepAlive } from 'vue';
function f() { return <KeepAlive a=<b/> c={<></>} v-html={h}>{{ default: () => 1, named }}</KeepAlive>; }
