import { KeepAlive } from 'vue';
export default <div {...sp} v-custom:arg_m1_m2={c}>{x}</div>;
