import { KeepAlive } from 'vue';
class K { m() { return <A.b id={i} v-show={s}>{...rest}</A.b>; } }
