import { KeepAlive } from 'vue';
let w; w = <Comp onUpdate:modelValue={u} modelValue={m} v-custom:arg_m1_m2={c}>{() => 1}</Comp>;
