import { KeepAlive } from 'vue';
class K { m() { return <input class="c" style={s} v-html={h}>text</input>; } }
