import { KeepAlive } from 'vue';
function f() { return <svg id="i" v-model:arg_mod={m} />; }
