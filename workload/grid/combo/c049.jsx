import { KeepAlive } from 'vue';
h(<x-foo onClick={h} v-html={h}><B>{y}</B></x-foo>, <Outer a=<x-foo onClick={h} v-html={h}><B>{y}</B></x-foo>>{<x-foo onClick={h} v-html={h}><B>{y}</B></x-foo>}</Outer>);
