import { KeepAlive } from 'vue';
h(<A.b a={1} {...sp} b={b} v-model={m}><b /></A.b>, <Outer a=<A.b a={1} {...sp} b={b} v-model={m}><b /></A.b>>{<A.b a={1} {...sp} b={b} v-model={m}><b /></A.b>}</Outer>);
