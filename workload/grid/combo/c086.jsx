import { KeepAlive } from 'vue';
export default <svg onUpdate:modelValue={u} modelValue={m} v-slots={sl}><></></svg>;
