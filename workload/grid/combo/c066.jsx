import { KeepAlive } from 'vue';
const g = () => <input id="i"><></></input>;
