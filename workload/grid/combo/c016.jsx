import { KeepAlive } from 'vue';
function f() { return <div onClick={h} v-models={[[p, 'p'], [q, 'q', ['m']]]}>{cond ? <a /> : null}</div>; }
