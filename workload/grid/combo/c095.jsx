import { KeepAlive } from 'vue';
const v = <KeepAlive a={1} {...sp} b={b} v-model:arg_mod={m}>{...rest}</KeepAlive>;
