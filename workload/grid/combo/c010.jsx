import { KeepAlive } from 'vue';
let w; w = <x-foo id="i">{x}</x-foo>;
