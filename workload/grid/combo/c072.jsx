import { KeepAlive } from 'vue';
let w; w = <foo-bar onClick={h} v-models={[[p, 'p'], [q, 'q', ['m']]]}>{f()}</foo-bar>;
