import { KeepAlive } from 'vue';
const v = <div class="c" style={s} v-model={m}>{{ default: () => 1, named }}</div>;
