import { KeepAlive } from 'vue';
h(<div id="i" v-show={s}>{() => 1}</div>, <Outer a=<div id="i" v-show={s}>{() => 1}</div>>{<div id="i" v-show={s}>{() => 1}</div>}</Outer>);
