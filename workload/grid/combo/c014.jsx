import { KeepAlive } from 'vue';
const o = { p: <x-foo id={i} v-slots={sl}>{cond ? <a /> : null}</x-foo>, q: [<x-foo id={i} v-slots={sl}>{cond ? <a /> : null}</x-foo>] };
