import { KeepAlive } from 'vue';
const g = () => <Comp key={k} ref={r} v-show={s}><B>{y}</B></Comp>;
