import { KeepAlive } from 'vue';
export default <A.b onClick={h}>{...rest}</A.b>;
