import { KeepAlive } from 'vue';
function f() { return <div a={1} {...sp} b={b} v-model:arg_mod={m}>text</div>; }
