import { KeepAlive } from 'vue';
const o = { p: <input a={1} {...sp} b={b} v-show={s} />, q: [<input a={1} {...sp} b={b} v-show={s} />] };
