import { KeepAlive } from 'vue';
class K { m() { return <Comp onClick={h} v-models={[[p, 'p'], [q, 'q', ['m']]]} />; } }
