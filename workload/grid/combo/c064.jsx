import { KeepAlive } from 'vue';
const o = { p: <x-foo onUpdate:modelValue={u} modelValue={m} v-slots={sl}>text</x-foo>, q: [<x-foo onUpdate:modelValue={u} modelValue={m} v-slots={sl}>text</x-foo>] };
