import { KeepAlive } from 'vue';
const v = <input class="c" style={s} v-text='t'>{x}</input>;
