import { KeepAlive } from 'vue';
h(<input id={i} v-model:arg_mod={m}>{{ default: () => 1, named }}</input>, <Outer a=<input id={i} v-model:arg_mod={m}>{{ default: () => 1, named }}</input>>{<input id={i} v-model:arg_mod={m}>{{ default: () => 1, named }}</input>}</Outer>);
