import { KeepAlive } from 'vue';
function f() { return <input v-model={m}><B>{y}</B></input>; }
