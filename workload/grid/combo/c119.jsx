import { KeepAlive } from 'vue';
const o = { p: <x-foo key={k} ref={r} v-models={[[p, 'p'], [q, 'q', ['m']]]}>{() => 1}</x-foo>, q: [<x-foo key={k} ref={r} v-models={[[p, 'p'], [q, 'q', ['m']]]}>{() => 1}</x-foo>] };
