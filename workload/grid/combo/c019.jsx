import { KeepAlive } from 'vue';
class K { m() { return <div id={i} v-model={m}><></></div>; } }
