import { KeepAlive } from 'vue';
const g = () => <Comp onClick={h} v-model:arg_mod={m}>{x}</Comp>;
