import { KeepAlive } from 'vue';
const g = () => <x-foo {...sp} v-slots={sl} />;
