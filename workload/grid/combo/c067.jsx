import { KeepAlive } from 'vue';
h(<x-foo class="c" style={s} v-custom:arg_m1_m2={c}>text</x-foo>, <Outer a=<x-foo class="c" style={s} v-custom:arg_m1_m2={c}>text</x-foo>>{<x-foo class="c" style={s} v-custom:arg_m1_m2={c}>text</x-foo>}</Outer>);
