import { KeepAlive } from 'vue';
const v = <svg onUpdate:modelValue={u} modelValue={m} v-model={m}>{...rest}</svg>;
