import { KeepAlive } from 'vue';
const g = () => <div class="c" style={s} v-text='t'>{cond ? <a /> : null}</div>;
