import { KeepAlive } from 'vue';
const v = <foo-bar>text</foo-bar>;
