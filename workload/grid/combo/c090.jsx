import { KeepAlive } from 'vue';
function f() { return <div id="i" v-model={m}>t {x} <i>{y}</i></div>; }
