import { KeepAlive } from 'vue';
const v = <Comp onClick={h} v-text='t'>{f()}</Comp>;
