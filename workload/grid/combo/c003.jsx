import { KeepAlive } from 'vue';
h(<foo-bar a=<b/> c={<></>} v-slots={sl}><></></foo-bar>, <Outer a=<foo-bar a=<b/> c={<></>} v-slots={sl}><></></foo-bar>>{<foo-bar a=<b/> c={<></>} v-slots={sl}><></></foo-bar>}</Outer>);
