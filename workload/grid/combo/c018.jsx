import { KeepAlive } from 'vue';
const v = <A.b class="c" style={s} v-slots={sl}>{f()}</A.b>;
