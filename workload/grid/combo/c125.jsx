import { KeepAlive } from 'vue';
const g = () => <Comp id={i} v-show={s}>{f()}</Comp>;
