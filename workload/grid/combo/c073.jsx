import { KeepAlive } from 'vue';
class K { m() { return <x-foo onClick={h} v-models={[[p, 'p'], [q, 'q', ['m']]]}><b /></x-foo>; } }
