import { KeepAlive } from 'vue';
const o = { p: <A.b {...sp} v-model={m}><></></A.b>, q: [<A.b {...sp} v-model={m}><></></A.b>] };
