import { KeepAlive } from 'vue';
function f() { return <foo-bar {...sp} v-model={m} />; }
