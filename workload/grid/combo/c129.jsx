import { KeepAlive } from 'vue';
const o = { p: <foo-bar a={1} {...sp} b={b} v-models={[[p, 'p'], [q, 'q', ['m']]]}>{f()}</foo-bar>, q: [<foo-bar a={1} {...sp} b={b} v-models={[[p, 'p'], [q, 'q', ['m']]]}>{f()}</foo-bar>] };
