import { KeepAlive } from 'vue';
export default <foo-bar onClick={h} v-custom:arg_m1_m2={c}>{{ default: () => 1, named }}</foo-bar>;
