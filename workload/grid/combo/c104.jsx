import { KeepAlive } from 'vue';
h(<KeepAlive v-slots={sl}><b /></KeepAlive>, <Outer a=<KeepAlive v-slots={sl}><b /></KeepAlive>>{<KeepAlive v-slots={sl}><b /></KeepAlive>}</Outer>);
