import { KeepAlive } from 'vue';
class K { m() { return <svg onUpdate:modelValue={u} modelValue={m} v-show={s}>{{ default: () => 1, named }}</svg>; } }
