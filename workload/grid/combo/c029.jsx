import { KeepAlive } from 'vue';
const o = { p: <KeepAlive class="c" style={s}>{() => 1}</KeepAlive>, q: [<KeepAlive class="c" style={s}>{() => 1}</KeepAlive>] };
