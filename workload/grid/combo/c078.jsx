import { KeepAlive } from 'vue';
function f() { return <A.b id={i} v-html={h}>{x}</A.b>; }
