import { KeepAlive } from 'vue';
const g = () => <div a={1} {...sp} b={b} v-custom:arg_m1_m2={c}>{...rest}</div>;
