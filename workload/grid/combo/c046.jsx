import { KeepAlive } from 'vue';
function f() { return <svg id="i" v-slots={sl}>{...rest}</svg>; }
