import { KeepAlive } from 'vue';
let w; w = <KeepAlive a=<b/> c={<></>} v-html={h}>t {x} <i>{y}</i></KeepAlive>;
