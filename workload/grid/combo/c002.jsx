import { KeepAlive } from 'vue';
const o = { p: <svg {...sp} v-html={h}><b /></svg>, q: [<svg {...sp} v-html={h}><b /></svg>] };
