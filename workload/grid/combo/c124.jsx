import { KeepAlive } from 'vue';
let w; w = <KeepAlive onClick={h}><b /></KeepAlive>;
