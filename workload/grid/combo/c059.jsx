import { KeepAlive } from 'vue';
let w; w = <KeepAlive v-show={s}>t {x} <i>{y}</i></KeepAlive>;
