import { KeepAlive } from 'vue';
let w; w = <foo-bar v-custom:arg_m1_m2={c}>{...rest}</foo-bar>;
