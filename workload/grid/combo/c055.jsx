import { KeepAlive } from 'vue';
const v = <svg key={k} ref={r} v-html={h}>{() => 1}</svg>;
