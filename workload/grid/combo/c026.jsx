import { KeepAlive } from 'vue';
export default <svg key={k} ref={r} v-model={m}>{{ default: () => 1, named }}</svg>;
