import { KeepAlive } from 'vue';
let w; w = <foo-bar class="c" style={s} v-html={h}><B>{y}</B></foo-bar>;
