import { KeepAlive } from 'vue';
const v = <A.b id="i" v-show={s}>{cond ? <a /> : null}</A.b>;
