import { KeepAlive } from 'vue';
class K { m() { return <A.b key={k} ref={r}><B>{y}</B></A.b>; } }
