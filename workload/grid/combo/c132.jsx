import { KeepAlive } from 'vue';
const v = <Comp onUpdate:modelValue={u} modelValue={m} v-model={m}><B>{y}</B></Comp>;
