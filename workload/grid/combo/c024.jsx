import { KeepAlive } from 'vue';
h(<div onUpdate:modelValue={u} modelValue={m} v-show={s}><b /></div>, <Outer a=<div onUpdate:modelValue={u} modelValue={m} v-show={s}><b /></div>>{<div onUpdate:modelValue={u} modelValue={m} v-show={s}><b /></div>}</Outer>);
