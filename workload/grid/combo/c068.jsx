import { KeepAlive } from 'vue';
let w; w = <svg onUpdate:modelValue={u} modelValue={m} v-model:arg_mod={m}>{cond ? <a /> : null}</svg>;
