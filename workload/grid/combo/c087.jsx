import { KeepAlive } from 'vue';
function f() { return <svg a={1} {...sp} b={b} v-text='t'><B>{y}</B></svg>; }
