import { KeepAlive } from 'vue';
const g = () => <KeepAlive onUpdate:modelValue={u} modelValue={m} v-model={m}>{f()}</KeepAlive>;
