import { KeepAlive } from 'vue';
const g = () => <Comp id={i} v-text='t'>t {x} <i>{y}</i></Comp>;
