import { KeepAlive } from 'vue';
const o = { p: <foo-bar id="i" v-text='t'>{{ default: () => 1, named }}</foo-bar>, q: [<foo-bar id="i" v-text='t'>{{ default: () => 1, named }}</foo-bar>] };
