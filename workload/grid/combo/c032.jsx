import { KeepAlive } from 'vue';
export default <Comp class="c" style={s} v-model:arg_mod={m}>t {x} <i>{y}</i></Comp>;
