import { KeepAlive } from 'vue';
const v = <KeepAlive {...sp} v-custom:arg_m1_m2={c}><B>{y}</B></KeepAlive>;
