import { KeepAlive } from 'vue';
export default <input class="c" style={s} v-slots={sl}><b /></input>;
