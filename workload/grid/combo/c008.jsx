import { KeepAlive } from 'vue';
class K { m() { return <KeepAlive id="i" v-model:arg_mod={m}>{cond ? <a /> : null}</KeepAlive>; } }
