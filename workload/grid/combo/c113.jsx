import { KeepAlive } from 'vue';
h(<A.b key={k} ref={r} v-model:arg_mod={m}>{f()}</A.b>, <Outer a=<A.b key={k} ref={r} v-model:arg_mod={m}>{f()}</A.b>>{<A.b key={k} ref={r} v-model:arg_mod={m}>{f()}</A.b>}</Outer>);
