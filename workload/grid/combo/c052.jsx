import { KeepAlive } from 'vue';
const g = () => <foo-bar onUpdate:modelValue={u} modelValue={m} v-html={h}>{x}</foo-bar>;
