import { KeepAlive } from 'vue';
h(<div id={i} v-models={[[p, 'p'], [q, 'q', ['m']]]}><B>{y}</B></div>, <Outer a=<div id={i} v-models={[[p, 'p'], [q, 'q', ['m']]]}><B>{y}</B></div>>{<div id={i} v-models={[[p, 'p'], [q, 'q', ['m']]]}><B>{y}</B></div>}</Outer>);
