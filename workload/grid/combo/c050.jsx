import { KeepAlive } from 'vue';
function f() { return <Comp a={1} {...sp} b={b} v-slots={sl}>{x}</Comp>; }
