import { KeepAlive } from 'vue';
export default <input key={k} ref={r} v-custom:arg_m1_m2={c}><b /></input>;
