import { KeepAlive } from 'vue';
h(<foo-bar id={i}>{() => 1}</foo-bar>, <Outer a=<foo-bar id={i}>{() => 1}</foo-bar>>{<foo-bar id={i}>{() => 1}</foo-bar>}</Outer>);
