import { KeepAlive } from 'vue';
const g = () => <Comp id="i" v-html={h}><b /></Comp>;
