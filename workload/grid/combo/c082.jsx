import { KeepAlive } from 'vue';
const g = () => <svg a=<b/> c={<></>} v-slots={sl}><B>{y}</B></svg>;
