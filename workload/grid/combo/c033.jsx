import { KeepAlive } from 'vue';
h(<Comp>{cond ? <a /> : null}</Comp>, <Outer a=<Comp>{cond ? <a /> : null}</Comp>>{<Comp>{cond ? <a /> : null}</Comp>}</Outer>);
