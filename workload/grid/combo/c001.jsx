import { KeepAlive } from 'vue';
function f() { return <svg onUpdate:modelValue={u} modelValue={m}>{f()}</svg>; }
