import { KeepAlive } from 'vue';
h(<KeepAlive key={k} ref={r} v-slots={sl}>text</KeepAlive>, <Outer a=<KeepAlive key={k} ref={r} v-slots={sl}>text</KeepAlive>>{<KeepAlive key={k} ref={r} v-slots={sl}>text</KeepAlive>}</Outer>);
