const t0 = <input type="checkbox" v-model={x} />;
const t1 = <input type="radio" v-model={x} />;
const t2 = <input type="text" v-model={x} />;
const t3 = <input type={t} v-model={x} />;
const t4 = <input type v-model={x} />;
const t5 = <input type=<b/> v-model={x} />;
const t6 = <input {...sp} v-model={x} />;
const t7 = <input type="checkbox" type="radio" v-model={x} />;
