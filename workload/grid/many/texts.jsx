const s0 = <div title="title number 0">text number 0
   continued 0</div>;
const s1 = <div title="title number 1">text number 1
   continued 1</div>;
const s2 = <div title="title number 2">text number 2
   continued 2</div>;
const s3 = <div title="title number 3">text number 3
   continued 3</div>;
const s4 = <div title="title number 4">text number 4
   continued 4</div>;
const s5 = <div title="title number 5">text number 5
   continued 5</div>;
const s6 = <div title="title number 6">text number 6
   continued 6</div>;
const s7 = <div title="title number 7">text number 7
   continued 7</div>;
const s8 = <div title="title number 8">text number 8
   continued 8</div>;
const s9 = <div title="title number 9">text number 9
   continued 9</div>;
const s10 = <div title="title number 10">text number 10
   continued 10</div>;
const s11 = <div title="title number 11">text number 11
   continued 11</div>;
const s12 = <div title="title number 12">text number 12
   continued 12</div>;
const s13 = <div title="title number 13">text number 13
   continued 13</div>;
const s14 = <div title="title number 14">text number 14
   continued 14</div>;
const s15 = <div title="title number 15">text number 15
   continued 15</div>;
const s16 = <div title="title number 16">text number 16
   continued 16</div>;
const s17 = <div title="title number 17">text number 17
   continued 17</div>;
const s18 = <div title="title number 18">text number 18
   continued 18</div>;
const s19 = <div title="title number 19">text number 19
   continued 19</div>;
const s20 = <div title="title number 20">text number 20
   continued 20</div>;
const s21 = <div title="title number 21">text number 21
   continued 21</div>;
const s22 = <div title="title number 22">text number 22
   continued 22</div>;
const s23 = <div title="title number 23">text number 23
   continued 23</div>;
const s24 = <div title="title number 24">text number 24
   continued 24</div>;
const s25 = <div title="title number 25">text number 25
   continued 25</div>;
const s26 = <div title="title number 26">text number 26
   continued 26</div>;
const s27 = <div title="title number 27">text number 27
   continued 27</div>;
const s28 = <div title="title number 28">text number 28
   continued 28</div>;
const s29 = <div title="title number 29">text number 29
   continued 29</div>;
const s30 = <div title="title number 30">text number 30
   continued 30</div>;
const s31 = <div title="title number 31">text number 31
   continued 31</div>;
const s32 = <div title="title number 32">text number 32
   continued 32</div>;
const s33 = <div title="title number 33">text number 33
   continued 33</div>;
const s34 = <div title="title number 34">text number 34
   continued 34</div>;
const s35 = <div title="title number 35">text number 35
   continued 35</div>;
const s36 = <div title="title number 36">text number 36
   continued 36</div>;
const s37 = <div title="title number 37">text number 37
   continued 37</div>;
const s38 = <div title="title number 38">text number 38
   continued 38</div>;
const s39 = <div title="title number 39">text number 39
   continued 39</div>;
const s40 = <div title="title number 40">text number 40
   continued 40</div>;
const s41 = <div title="title number 41">text number 41
   continued 41</div>;
const s42 = <div title="title number 42">text number 42
   continued 42</div>;
const s43 = <div title="title number 43">text number 43
   continued 43</div>;
const s44 = <div title="title number 44">text number 44
   continued 44</div>;
const s45 = <div title="title number 45">text number 45
   continued 45</div>;
const s46 = <div title="title number 46">text number 46
   continued 46</div>;
const s47 = <div title="title number 47">text number 47
   continued 47</div>;
const s48 = <div title="title number 48">text number 48
   continued 48</div>;
const s49 = <div title="title number 49">text number 49
   continued 49</div>;
const s50 = <div title="title number 50">text number 50
   continued 50</div>;
const s51 = <div title="title number 51">text number 51
   continued 51</div>;
const s52 = <div title="title number 52">text number 52
   continued 52</div>;
const s53 = <div title="title number 53">text number 53
   continued 53</div>;
const s54 = <div title="title number 54">text number 54
   continued 54</div>;
const s55 = <div title="title number 55">text number 55
   continued 55</div>;
const s56 = <div title="title number 56">text number 56
   continued 56</div>;
const s57 = <div title="title number 57">text number 57
   continued 57</div>;
const s58 = <div title="title number 58">text number 58
   continued 58</div>;
const s59 = <div title="title number 59">text number 59
   continued 59</div>;
const s60 = <div title="title number 60">text number 60
   continued 60</div>;
const s61 = <div title="title number 61">text number 61
   continued 61</div>;
const s62 = <div title="title number 62">text number 62
   continued 62</div>;
const s63 = <div title="title number 63">text number 63
   continued 63</div>;
const s64 = <div title="title number 64">text number 64
   continued 64</div>;
const s65 = <div title="title number 65">text number 65
   continued 65</div>;
const s66 = <div title="title number 66">text number 66
   continued 66</div>;
const s67 = <div title="title number 67">text number 67
   continued 67</div>;
const s68 = <div title="title number 68">text number 68
   continued 68</div>;
const s69 = <div title="title number 69">text number 69
   continued 69</div>;
const s70 = <div title="title number 70">text number 70
   continued 70</div>;
const s71 = <div title="title number 71">text number 71
   continued 71</div>;
const s72 = <div title="title number 72">text number 72
   continued 72</div>;
const s73 = <div title="title number 73">text number 73
   continued 73</div>;
const s74 = <div title="title number 74">text number 74
   continued 74</div>;
const s75 = <div title="title number 75">text number 75
   continued 75</div>;
const s76 = <div title="title number 76">text number 76
   continued 76</div>;
const s77 = <div title="title number 77">text number 77
   continued 77</div>;
const s78 = <div title="title number 78">text number 78
   continued 78</div>;
const s79 = <div title="title number 79">text number 79
   continued 79</div>;
const s80 = <div title="title number 80">text number 80
   continued 80</div>;
const s81 = <div title="title number 81">text number 81
   continued 81</div>;
const s82 = <div title="title number 82">text number 82
   continued 82</div>;
const s83 = <div title="title number 83">text number 83
   continued 83</div>;
const s84 = <div title="title number 84">text number 84
   continued 84</div>;
const s85 = <div title="title number 85">text number 85
   continued 85</div>;
const s86 = <div title="title number 86">text number 86
   continued 86</div>;
const s87 = <div title="title number 87">text number 87
   continued 87</div>;
const s88 = <div title="title number 88">text number 88
   continued 88</div>;
const s89 = <div title="title number 89">text number 89
   continued 89</div>;
const s90 = <div title="title number 90">text number 90
   continued 90</div>;
const s91 = <div title="title number 91">text number 91
   continued 91</div>;
const s92 = <div title="title number 92">text number 92
   continued 92</div>;
const s93 = <div title="title number 93">text number 93
   continued 93</div>;
const s94 = <div title="title number 94">text number 94
   continued 94</div>;
const s95 = <div title="title number 95">text number 95
   continued 95</div>;
const s96 = <div title="title number 96">text number 96
   continued 96</div>;
const s97 = <div title="title number 97">text number 97
   continued 97</div>;
const s98 = <div title="title number 98">text number 98
   continued 98</div>;
const s99 = <div title="title number 99">text number 99
   continued 99</div>;
const s100 = <div title="title number 100">text number 100
   continued 100</div>;
const s101 = <div title="title number 101">text number 101
   continued 101</div>;
const s102 = <div title="title number 102">text number 102
   continued 102</div>;
const s103 = <div title="title number 103">text number 103
   continued 103</div>;
const s104 = <div title="title number 104">text number 104
   continued 104</div>;
const s105 = <div title="title number 105">text number 105
   continued 105</div>;
const s106 = <div title="title number 106">text number 106
   continued 106</div>;
const s107 = <div title="title number 107">text number 107
   continued 107</div>;
const s108 = <div title="title number 108">text number 108
   continued 108</div>;
const s109 = <div title="title number 109">text number 109
   continued 109</div>;
const s110 = <div title="title number 110">text number 110
   continued 110</div>;
const s111 = <div title="title number 111">text number 111
   continued 111</div>;
const s112 = <div title="title number 112">text number 112
   continued 112</div>;
const s113 = <div title="title number 113">text number 113
   continued 113</div>;
const s114 = <div title="title number 114">text number 114
   continued 114</div>;
const s115 = <div title="title number 115">text number 115
   continued 115</div>;
const s116 = <div title="title number 116">text number 116
   continued 116</div>;
const s117 = <div title="title number 117">text number 117
   continued 117</div>;
const s118 = <div title="title number 118">text number 118
   continued 118</div>;
const s119 = <div title="title number 119">text number 119
   continued 119</div>;
const s120 = <div title="title number 120">text number 120
   continued 120</div>;
const s121 = <div title="title number 121">text number 121
   continued 121</div>;
const s122 = <div title="title number 122">text number 122
   continued 122</div>;
const s123 = <div title="title number 123">text number 123
   continued 123</div>;
const s124 = <div title="title number 124">text number 124
   continued 124</div>;
const s125 = <div title="title number 125">text number 125
   continued 125</div>;
const s126 = <div title="title number 126">text number 126
   continued 126</div>;
const s127 = <div title="title number 127">text number 127
   continued 127</div>;
const s128 = <div title="title number 128">text number 128
   continued 128</div>;
const s129 = <div title="title number 129">text number 129
   continued 129</div>;
const s130 = <div title="title number 130">text number 130
   continued 130</div>;
const s131 = <div title="title number 131">text number 131
   continued 131</div>;
const s132 = <div title="title number 132">text number 132
   continued 132</div>;
const s133 = <div title="title number 133">text number 133
   continued 133</div>;
const s134 = <div title="title number 134">text number 134
   continued 134</div>;
const s135 = <div title="title number 135">text number 135
   continued 135</div>;
const s136 = <div title="title number 136">text number 136
   continued 136</div>;
const s137 = <div title="title number 137">text number 137
   continued 137</div>;
const s138 = <div title="title number 138">text number 138
   continued 138</div>;
const s139 = <div title="title number 139">text number 139
   continued 139</div>;
const s140 = <div title="title number 140">text number 140
   continued 140</div>;
const s141 = <div title="title number 141">text number 141
   continued 141</div>;
const s142 = <div title="title number 142">text number 142
   continued 142</div>;
const s143 = <div title="title number 143">text number 143
   continued 143</div>;
const s144 = <div title="title number 144">text number 144
   continued 144</div>;
const s145 = <div title="title number 145">text number 145
   continued 145</div>;
const s146 = <div title="title number 146">text number 146
   continued 146</div>;
const s147 = <div title="title number 147">text number 147
   continued 147</div>;
const s148 = <div title="title number 148">text number 148
   continued 148</div>;
const s149 = <div title="title number 149">text number 149
   continued 149</div>;
const s150 = <div title="title number 150">text number 150
   continued 150</div>;
const s151 = <div title="title number 151">text number 151
   continued 151</div>;
const s152 = <div title="title number 152">text number 152
   continued 152</div>;
const s153 = <div title="title number 153">text number 153
   continued 153</div>;
const s154 = <div title="title number 154">text number 154
   continued 154</div>;
const s155 = <div title="title number 155">text number 155
   continued 155</div>;
const s156 = <div title="title number 156">text number 156
   continued 156</div>;
const s157 = <div title="title number 157">text number 157
   continued 157</div>;
const s158 = <div title="title number 158">text number 158
   continued 158</div>;
const s159 = <div title="title number 159">text number 159
   continued 159</div>;
const s160 = <div title="title number 160">text number 160
   continued 160</div>;
const s161 = <div title="title number 161">text number 161
   continued 161</div>;
const s162 = <div title="title number 162">text number 162
   continued 162</div>;
const s163 = <div title="title number 163">text number 163
   continued 163</div>;
const s164 = <div title="title number 164">text number 164
   continued 164</div>;
const s165 = <div title="title number 165">text number 165
   continued 165</div>;
const s166 = <div title="title number 166">text number 166
   continued 166</div>;
const s167 = <div title="title number 167">text number 167
   continued 167</div>;
const s168 = <div title="title number 168">text number 168
   continued 168</div>;
const s169 = <div title="title number 169">text number 169
   continued 169</div>;
const s170 = <div title="title number 170">text number 170
   continued 170</div>;
const s171 = <div title="title number 171">text number 171
   continued 171</div>;
const s172 = <div title="title number 172">text number 172
   continued 172</div>;
const s173 = <div title="title number 173">text number 173
   continued 173</div>;
const s174 = <div title="title number 174">text number 174
   continued 174</div>;
const s175 = <div title="title number 175">text number 175
   continued 175</div>;
const s176 = <div title="title number 176">text number 176
   continued 176</div>;
const s177 = <div title="title number 177">text number 177
   continued 177</div>;
const s178 = <div title="title number 178">text number 178
   continued 178</div>;
const s179 = <div title="title number 179">text number 179
   continued 179</div>;
const s180 = <div title="title number 180">text number 180
   continued 180</div>;
const s181 = <div title="title number 181">text number 181
   continued 181</div>;
const s182 = <div title="title number 182">text number 182
   continued 182</div>;
const s183 = <div title="title number 183">text number 183
   continued 183</div>;
const s184 = <div title="title number 184">text number 184
   continued 184</div>;
const s185 = <div title="title number 185">text number 185
   continued 185</div>;
const s186 = <div title="title number 186">text number 186
   continued 186</div>;
const s187 = <div title="title number 187">text number 187
   continued 187</div>;
const s188 = <div title="title number 188">text number 188
   continued 188</div>;
const s189 = <div title="title number 189">text number 189
   continued 189</div>;
const s190 = <div title="title number 190">text number 190
   continued 190</div>;
const s191 = <div title="title number 191">text number 191
   continued 191</div>;
const s192 = <div title="title number 192">text number 192
   continued 192</div>;
const s193 = <div title="title number 193">text number 193
   continued 193</div>;
const s194 = <div title="title number 194">text number 194
   continued 194</div>;
const s195 = <div title="title number 195">text number 195
   continued 195</div>;
const s196 = <div title="title number 196">text number 196
   continued 196</div>;
const s197 = <div title="title number 197">text number 197
   continued 197</div>;
const s198 = <div title="title number 198">text number 198
   continued 198</div>;
const s199 = <div title="title number 199">text number 199
   continued 199</div>;
const s200 = <div title="title number 200">text number 200
   continued 200</div>;
const s201 = <div title="title number 201">text number 201
   continued 201</div>;
const s202 = <div title="title number 202">text number 202
   continued 202</div>;
const s203 = <div title="title number 203">text number 203
   continued 203</div>;
const s204 = <div title="title number 204">text number 204
   continued 204</div>;
const s205 = <div title="title number 205">text number 205
   continued 205</div>;
const s206 = <div title="title number 206">text number 206
   continued 206</div>;
const s207 = <div title="title number 207">text number 207
   continued 207</div>;
const s208 = <div title="title number 208">text number 208
   continued 208</div>;
const s209 = <div title="title number 209">text number 209
   continued 209</div>;
const s210 = <div title="title number 210">text number 210
   continued 210</div>;
const s211 = <div title="title number 211">text number 211
   continued 211</div>;
const s212 = <div title="title number 212">text number 212
   continued 212</div>;
const s213 = <div title="title number 213">text number 213
   continued 213</div>;
const s214 = <div title="title number 214">text number 214
   continued 214</div>;
const s215 = <div title="title number 215">text number 215
   continued 215</div>;
const s216 = <div title="title number 216">text number 216
   continued 216</div>;
const s217 = <div title="title number 217">text number 217
   continued 217</div>;
const s218 = <div title="title number 218">text number 218
   continued 218</div>;
const s219 = <div title="title number 219">text number 219
   continued 219</div>;
const s220 = <div title="title number 220">text number 220
   continued 220</div>;
const s221 = <div title="title number 221">text number 221
   continued 221</div>;
const s222 = <div title="title number 222">text number 222
   continued 222</div>;
const s223 = <div title="title number 223">text number 223
   continued 223</div>;
const s224 = <div title="title number 224">text number 224
   continued 224</div>;
const s225 = <div title="title number 225">text number 225
   continued 225</div>;
const s226 = <div title="title number 226">text number 226
   continued 226</div>;
const s227 = <div title="title number 227">text number 227
   continued 227</div>;
const s228 = <div title="title number 228">text number 228
   continued 228</div>;
const s229 = <div title="title number 229">text number 229
   continued 229</div>;
const s230 = <div title="title number 230">text number 230
   continued 230</div>;
const s231 = <div title="title number 231">text number 231
   continued 231</div>;
const s232 = <div title="title number 232">text number 232
   continued 232</div>;
const s233 = <div title="title number 233">text number 233
   continued 233</div>;
const s234 = <div title="title number 234">text number 234
   continued 234</div>;
const s235 = <div title="title number 235">text number 235
   continued 235</div>;
const s236 = <div title="title number 236">text number 236
   continued 236</div>;
const s237 = <div title="title number 237">text number 237
   continued 237</div>;
const s238 = <div title="title number 238">text number 238
   continued 238</div>;
const s239 = <div title="title number 239">text number 239
   continued 239</div>;
const s240 = <div title="title number 240">text number 240
   continued 240</div>;
const s241 = <div title="title number 241">text number 241
   continued 241</div>;
const s242 = <div title="title number 242">text number 242
   continued 242</div>;
const s243 = <div title="title number 243">text number 243
   continued 243</div>;
const s244 = <div title="title number 244">text number 244
   continued 244</div>;
const s245 = <div title="title number 245">text number 245
   continued 245</div>;
const s246 = <div title="title number 246">text number 246
   continued 246</div>;
const s247 = <div title="title number 247">text number 247
   continued 247</div>;
const s248 = <div title="title number 248">text number 248
   continued 248</div>;
const s249 = <div title="title number 249">text number 249
   continued 249</div>;
const s250 = <div title="title number 250">text number 250
   continued 250</div>;
const s251 = <div title="title number 251">text number 251
   continued 251</div>;
const s252 = <div title="title number 252">text number 252
   continued 252</div>;
const s253 = <div title="title number 253">text number 253
   continued 253</div>;
const s254 = <div title="title number 254">text number 254
   continued 254</div>;
const s255 = <div title="title number 255">text number 255
   continued 255</div>;
const s256 = <div title="title number 256">text number 256
   continued 256</div>;
const s257 = <div title="title number 257">text number 257
   continued 257</div>;
const s258 = <div title="title number 258">text number 258
   continued 258</div>;
const s259 = <div title="title number 259">text number 259
   continued 259</div>;
const s260 = <div title="title number 260">text number 260
   continued 260</div>;
const s261 = <div title="title number 261">text number 261
   continued 261</div>;
const s262 = <div title="title number 262">text number 262
   continued 262</div>;
const s263 = <div title="title number 263">text number 263
   continued 263</div>;
const s264 = <div title="title number 264">text number 264
   continued 264</div>;
const s265 = <div title="title number 265">text number 265
   continued 265</div>;
const s266 = <div title="title number 266">text number 266
   continued 266</div>;
const s267 = <div title="title number 267">text number 267
   continued 267</div>;
const s268 = <div title="title number 268">text number 268
   continued 268</div>;
const s269 = <div title="title number 269">text number 269
   continued 269</div>;
const s270 = <div title="title number 270">text number 270
   continued 270</div>;
const s271 = <div title="title number 271">text number 271
   continued 271</div>;
const s272 = <div title="title number 272">text number 272
   continued 272</div>;
const s273 = <div title="title number 273">text number 273
   continued 273</div>;
const s274 = <div title="title number 274">text number 274
   continued 274</div>;
const s275 = <div title="title number 275">text number 275
   continued 275</div>;
const s276 = <div title="title number 276">text number 276
   continued 276</div>;
const s277 = <div title="title number 277">text number 277
   continued 277</div>;
const s278 = <div title="title number 278">text number 278
   continued 278</div>;
const s279 = <div title="title number 279">text number 279
   continued 279</div>;
const s280 = <div title="title number 280">text number 280
   continued 280</div>;
const s281 = <div title="title number 281">text number 281
   continued 281</div>;
const s282 = <div title="title number 282">text number 282
   continued 282</div>;
const s283 = <div title="title number 283">text number 283
   continued 283</div>;
const s284 = <div title="title number 284">text number 284
   continued 284</div>;
const s285 = <div title="title number 285">text number 285
   continued 285</div>;
const s286 = <div title="title number 286">text number 286
   continued 286</div>;
const s287 = <div title="title number 287">text number 287
   continued 287</div>;
const s288 = <div title="title number 288">text number 288
   continued 288</div>;
const s289 = <div title="title number 289">text number 289
   continued 289</div>;
const s290 = <div title="title number 290">text number 290
   continued 290</div>;
const s291 = <div title="title number 291">text number 291
   continued 291</div>;
const s292 = <div title="title number 292">text number 292
   continued 292</div>;
const s293 = <div title="title number 293">text number 293
   continued 293</div>;
const s294 = <div title="title number 294">text number 294
   continued 294</div>;
const s295 = <div title="title number 295">text number 295
   continued 295</div>;
const s296 = <div title="title number 296">text number 296
   continued 296</div>;
const s297 = <div title="title number 297">text number 297
   continued 297</div>;
const s298 = <div title="title number 298">text number 298
   continued 298</div>;
const s299 = <div title="title number 299">text number 299
   continued 299</div>;
const s300 = <div title="title number 300">text number 300
   continued 300</div>;
const s301 = <div title="title number 301">text number 301
   continued 301</div>;
const s302 = <div title="title number 302">text number 302
   continued 302</div>;
const s303 = <div title="title number 303">text number 303
   continued 303</div>;
const s304 = <div title="title number 304">text number 304
   continued 304</div>;
const s305 = <div title="title number 305">text number 305
   continued 305</div>;
const s306 = <div title="title number 306">text number 306
   continued 306</div>;
const s307 = <div title="title number 307">text number 307
   continued 307</div>;
const s308 = <div title="title number 308">text number 308
   continued 308</div>;
const s309 = <div title="title number 309">text number 309
   continued 309</div>;
const s310 = <div title="title number 310">text number 310
   continued 310</div>;
const s311 = <div title="title number 311">text number 311
   continued 311</div>;
const s312 = <div title="title number 312">text number 312
   continued 312</div>;
const s313 = <div title="title number 313">text number 313
   continued 313</div>;
const s314 = <div title="title number 314">text number 314
   continued 314</div>;
const s315 = <div title="title number 315">text number 315
   continued 315</div>;
const s316 = <div title="title number 316">text number 316
   continued 316</div>;
const s317 = <div title="title number 317">text number 317
   continued 317</div>;
const s318 = <div title="title number 318">text number 318
   continued 318</div>;
const s319 = <div title="title number 319">text number 319
   continued 319</div>;
const s320 = <div title="title number 320">text number 320
   continued 320</div>;
const s321 = <div title="title number 321">text number 321
   continued 321</div>;
const s322 = <div title="title number 322">text number 322
   continued 322</div>;
const s323 = <div title="title number 323">text number 323
   continued 323</div>;
const s324 = <div title="title number 324">text number 324
   continued 324</div>;
const s325 = <div title="title number 325">text number 325
   continued 325</div>;
const s326 = <div title="title number 326">text number 326
   continued 326</div>;
const s327 = <div title="title number 327">text number 327
   continued 327</div>;
const s328 = <div title="title number 328">text number 328
   continued 328</div>;
const s329 = <div title="title number 329">text number 329
   continued 329</div>;
const s330 = <div title="title number 330">text number 330
   continued 330</div>;
const s331 = <div title="title number 331">text number 331
   continued 331</div>;
const s332 = <div title="title number 332">text number 332
   continued 332</div>;
const s333 = <div title="title number 333">text number 333
   continued 333</div>;
const s334 = <div title="title number 334">text number 334
   continued 334</div>;
const s335 = <div title="title number 335">text number 335
   continued 335</div>;
const s336 = <div title="title number 336">text number 336
   continued 336</div>;
const s337 = <div title="title number 337">text number 337
   continued 337</div>;
const s338 = <div title="title number 338">text number 338
   continued 338</div>;
const s339 = <div title="title number 339">text number 339
   continued 339</div>;
const s340 = <div title="title number 340">text number 340
   continued 340</div>;
const s341 = <div title="title number 341">text number 341
   continued 341</div>;
const s342 = <div title="title number 342">text number 342
   continued 342</div>;
const s343 = <div title="title number 343">text number 343
   continued 343</div>;
const s344 = <div title="title number 344">text number 344
   continued 344</div>;
const s345 = <div title="title number 345">text number 345
   continued 345</div>;
const s346 = <div title="title number 346">text number 346
   continued 346</div>;
const s347 = <div title="title number 347">text number 347
   continued 347</div>;
const s348 = <div title="title number 348">text number 348
   continued 348</div>;
const s349 = <div title="title number 349">text number 349
   continued 349</div>;
const s350 = <div title="title number 350">text number 350
   continued 350</div>;
const s351 = <div title="title number 351">text number 351
   continued 351</div>;
const s352 = <div title="title number 352">text number 352
   continued 352</div>;
const s353 = <div title="title number 353">text number 353
   continued 353</div>;
const s354 = <div title="title number 354">text number 354
   continued 354</div>;
const s355 = <div title="title number 355">text number 355
   continued 355</div>;
const s356 = <div title="title number 356">text number 356
   continued 356</div>;
const s357 = <div title="title number 357">text number 357
   continued 357</div>;
const s358 = <div title="title number 358">text number 358
   continued 358</div>;
const s359 = <div title="title number 359">text number 359
   continued 359</div>;
const s360 = <div title="title number 360">text number 360
   continued 360</div>;
const s361 = <div title="title number 361">text number 361
   continued 361</div>;
const s362 = <div title="title number 362">text number 362
   continued 362</div>;
const s363 = <div title="title number 363">text number 363
   continued 363</div>;
const s364 = <div title="title number 364">text number 364
   continued 364</div>;
const s365 = <div title="title number 365">text number 365
   continued 365</div>;
const s366 = <div title="title number 366">text number 366
   continued 366</div>;
const s367 = <div title="title number 367">text number 367
   continued 367</div>;
const s368 = <div title="title number 368">text number 368
   continued 368</div>;
const s369 = <div title="title number 369">text number 369
   continued 369</div>;
const s370 = <div title="title number 370">text number 370
   continued 370</div>;
const s371 = <div title="title number 371">text number 371
   continued 371</div>;
const s372 = <div title="title number 372">text number 372
   continued 372</div>;
const s373 = <div title="title number 373">text number 373
   continued 373</div>;
const s374 = <div title="title number 374">text number 374
   continued 374</div>;
const s375 = <div title="title number 375">text number 375
   continued 375</div>;
const s376 = <div title="title number 376">text number 376
   continued 376</div>;
const s377 = <div title="title number 377">text number 377
   continued 377</div>;
const s378 = <div title="title number 378">text number 378
   continued 378</div>;
const s379 = <div title="title number 379">text number 379
   continued 379</div>;
const s380 = <div title="title number 380">text number 380
   continued 380</div>;
const s381 = <div title="title number 381">text number 381
   continued 381</div>;
const s382 = <div title="title number 382">text number 382
   continued 382</div>;
const s383 = <div title="title number 383">text number 383
   continued 383</div>;
const s384 = <div title="title number 384">text number 384
   continued 384</div>;
const s385 = <div title="title number 385">text number 385
   continued 385</div>;
const s386 = <div title="title number 386">text number 386
   continued 386</div>;
const s387 = <div title="title number 387">text number 387
   continued 387</div>;
const s388 = <div title="title number 388">text number 388
   continued 388</div>;
const s389 = <div title="title number 389">text number 389
   continued 389</div>;
const s390 = <div title="title number 390">text number 390
   continued 390</div>;
const s391 = <div title="title number 391">text number 391
   continued 391</div>;
const s392 = <div title="title number 392">text number 392
   continued 392</div>;
const s393 = <div title="title number 393">text number 393
   continued 393</div>;
const s394 = <div title="title number 394">text number 394
   continued 394</div>;
const s395 = <div title="title number 395">text number 395
   continued 395</div>;
const s396 = <div title="title number 396">text number 396
   continued 396</div>;
const s397 = <div title="title number 397">text number 397
   continued 397</div>;
const s398 = <div title="title number 398">text number 398
   continued 398</div>;
const s399 = <div title="title number 399">text number 399
   continued 399</div>;
const s400 = <div title="title number 400">text number 400
   continued 400</div>;
const s401 = <div title="title number 401">text number 401
   continued 401</div>;
const s402 = <div title="title number 402">text number 402
   continued 402</div>;
const s403 = <div title="title number 403">text number 403
   continued 403</div>;
const s404 = <div title="title number 404">text number 404
   continued 404</div>;
const s405 = <div title="title number 405">text number 405
   continued 405</div>;
const s406 = <div title="title number 406">text number 406
   continued 406</div>;
const s407 = <div title="title number 407">text number 407
   continued 407</div>;
const s408 = <div title="title number 408">text number 408
   continued 408</div>;
const s409 = <div title="title number 409">text number 409
   continued 409</div>;
const s410 = <div title="title number 410">text number 410
   continued 410</div>;
const s411 = <div title="title number 411">text number 411
   continued 411</div>;
const s412 = <div title="title number 412">text number 412
   continued 412</div>;
const s413 = <div title="title number 413">text number 413
   continued 413</div>;
const s414 = <div title="title number 414">text number 414
   continued 414</div>;
const s415 = <div title="title number 415">text number 415
   continued 415</div>;
const s416 = <div title="title number 416">text number 416
   continued 416</div>;
const s417 = <div title="title number 417">text number 417
   continued 417</div>;
const s418 = <div title="title number 418">text number 418
   continued 418</div>;
const s419 = <div title="title number 419">text number 419
   continued 419</div>;
const s420 = <div title="title number 420">text number 420
   continued 420</div>;
const s421 = <div title="title number 421">text number 421
   continued 421</div>;
const s422 = <div title="title number 422">text number 422
   continued 422</div>;
const s423 = <div title="title number 423">text number 423
   continued 423</div>;
const s424 = <div title="title number 424">text number 424
   continued 424</div>;
const s425 = <div title="title number 425">text number 425
   continued 425</div>;
const s426 = <div title="title number 426">text number 426
   continued 426</div>;
const s427 = <div title="title number 427">text number 427
   continued 427</div>;
const s428 = <div title="title number 428">text number 428
   continued 428</div>;
const s429 = <div title="title number 429">text number 429
   continued 429</div>;
const s430 = <div title="title number 430">text number 430
   continued 430</div>;
const s431 = <div title="title number 431">text number 431
   continued 431</div>;
const s432 = <div title="title number 432">text number 432
   continued 432</div>;
const s433 = <div title="title number 433">text number 433
   continued 433</div>;
const s434 = <div title="title number 434">text number 434
   continued 434</div>;
const s435 = <div title="title number 435">text number 435
   continued 435</div>;
const s436 = <div title="title number 436">text number 436
   continued 436</div>;
const s437 = <div title="title number 437">text number 437
   continued 437</div>;
const s438 = <div title="title number 438">text number 438
   continued 438</div>;
const s439 = <div title="title number 439">text number 439
   continued 439</div>;
const s440 = <div title="title number 440">text number 440
   continued 440</div>;
const s441 = <div title="title number 441">text number 441
   continued 441</div>;
const s442 = <div title="title number 442">text number 442
   continued 442</div>;
const s443 = <div title="title number 443">text number 443
   continued 443</div>;
const s444 = <div title="title number 444">text number 444
   continued 444</div>;
const s445 = <div title="title number 445">text number 445
   continued 445</div>;
const s446 = <div title="title number 446">text number 446
   continued 446</div>;
const s447 = <div title="title number 447">text number 447
   continued 447</div>;
const s448 = <div title="title number 448">text number 448
   continued 448</div>;
const s449 = <div title="title number 449">text number 449
   continued 449</div>;
const s450 = <div title="title number 450">text number 450
   continued 450</div>;
const s451 = <div title="title number 451">text number 451
   continued 451</div>;
const s452 = <div title="title number 452">text number 452
   continued 452</div>;
const s453 = <div title="title number 453">text number 453
   continued 453</div>;
const s454 = <div title="title number 454">text number 454
   continued 454</div>;
const s455 = <div title="title number 455">text number 455
   continued 455</div>;
const s456 = <div title="title number 456">text number 456
   continued 456</div>;
const s457 = <div title="title number 457">text number 457
   continued 457</div>;
const s458 = <div title="title number 458">text number 458
   continued 458</div>;
const s459 = <div title="title number 459">text number 459
   continued 459</div>;
const s460 = <div title="title number 460">text number 460
   continued 460</div>;
const s461 = <div title="title number 461">text number 461
   continued 461</div>;
const s462 = <div title="title number 462">text number 462
   continued 462</div>;
const s463 = <div title="title number 463">text number 463
   continued 463</div>;
const s464 = <div title="title number 464">text number 464
   continued 464</div>;
const s465 = <div title="title number 465">text number 465
   continued 465</div>;
const s466 = <div title="title number 466">text number 466
   continued 466</div>;
const s467 = <div title="title number 467">text number 467
   continued 467</div>;
const s468 = <div title="title number 468">text number 468
   continued 468</div>;
const s469 = <div title="title number 469">text number 469
   continued 469</div>;
const s470 = <div title="title number 470">text number 470
   continued 470</div>;
const s471 = <div title="title number 471">text number 471
   continued 471</div>;
const s472 = <div title="title number 472">text number 472
   continued 472</div>;
const s473 = <div title="title number 473">text number 473
   continued 473</div>;
const s474 = <div title="title number 474">text number 474
   continued 474</div>;
const s475 = <div title="title number 475">text number 475
   continued 475</div>;
const s476 = <div title="title number 476">text number 476
   continued 476</div>;
const s477 = <div title="title number 477">text number 477
   continued 477</div>;
const s478 = <div title="title number 478">text number 478
   continued 478</div>;
const s479 = <div title="title number 479">text number 479
   continued 479</div>;
const s480 = <div title="title number 480">text number 480
   continued 480</div>;
const s481 = <div title="title number 481">text number 481
   continued 481</div>;
const s482 = <div title="title number 482">text number 482
   continued 482</div>;
const s483 = <div title="title number 483">text number 483
   continued 483</div>;
const s484 = <div title="title number 484">text number 484
   continued 484</div>;
const s485 = <div title="title number 485">text number 485
   continued 485</div>;
const s486 = <div title="title number 486">text number 486
   continued 486</div>;
const s487 = <div title="title number 487">text number 487
   continued 487</div>;
const s488 = <div title="title number 488">text number 488
   continued 488</div>;
const s489 = <div title="title number 489">text number 489
   continued 489</div>;
const s490 = <div title="title number 490">text number 490
   continued 490</div>;
const s491 = <div title="title number 491">text number 491
   continued 491</div>;
const s492 = <div title="title number 492">text number 492
   continued 492</div>;
const s493 = <div title="title number 493">text number 493
   continued 493</div>;
const s494 = <div title="title number 494">text number 494
   continued 494</div>;
const s495 = <div title="title number 495">text number 495
   continued 495</div>;
const s496 = <div title="title number 496">text number 496
   continued 496</div>;
const s497 = <div title="title number 497">text number 497
   continued 497</div>;
const s498 = <div title="title number 498">text number 498
   continued 498</div>;
const s499 = <div title="title number 499">text number 499
   continued 499</div>;
const s500 = <div title="title number 500">text number 500
   continued 500</div>;
const s501 = <div title="title number 501">text number 501
   continued 501</div>;
const s502 = <div title="title number 502">text number 502
   continued 502</div>;
const s503 = <div title="title number 503">text number 503
   continued 503</div>;
const s504 = <div title="title number 504">text number 504
   continued 504</div>;
const s505 = <div title="title number 505">text number 505
   continued 505</div>;
const s506 = <div title="title number 506">text number 506
   continued 506</div>;
const s507 = <div title="title number 507">text number 507
   continued 507</div>;
const s508 = <div title="title number 508">text number 508
   continued 508</div>;
const s509 = <div title="title number 509">text number 509
   continued 509</div>;
const s510 = <div title="title number 510">text number 510
   continued 510</div>;
const s511 = <div title="title number 511">text number 511
   continued 511</div>;
const s512 = <div title="title number 512">text number 512
   continued 512</div>;
const s513 = <div title="title number 513">text number 513
   continued 513</div>;
const s514 = <div title="title number 514">text number 514
   continued 514</div>;
const s515 = <div title="title number 515">text number 515
   continued 515</div>;
const s516 = <div title="title number 516">text number 516
   continued 516</div>;
const s517 = <div title="title number 517">text number 517
   continued 517</div>;
const s518 = <div title="title number 518">text number 518
   continued 518</div>;
const s519 = <div title="title number 519">text number 519
   continued 519</div>;
const s520 = <div title="title number 520">text number 520
   continued 520</div>;
const s521 = <div title="title number 521">text number 521
   continued 521</div>;
const s522 = <div title="title number 522">text number 522
   continued 522</div>;
const s523 = <div title="title number 523">text number 523
   continued 523</div>;
const s524 = <div title="title number 524">text number 524
   continued 524</div>;
const s525 = <div title="title number 525">text number 525
   continued 525</div>;
const s526 = <div title="title number 526">text number 526
   continued 526</div>;
const s527 = <div title="title number 527">text number 527
   continued 527</div>;
const s528 = <div title="title number 528">text number 528
   continued 528</div>;
const s529 = <div title="title number 529">text number 529
   continued 529</div>;
const s530 = <div title="title number 530">text number 530
   continued 530</div>;
const s531 = <div title="title number 531">text number 531
   continued 531</div>;
const s532 = <div title="title number 532">text number 532
   continued 532</div>;
const s533 = <div title="title number 533">text number 533
   continued 533</div>;
const s534 = <div title="title number 534">text number 534
   continued 534</div>;
const s535 = <div title="title number 535">text number 535
   continued 535</div>;
const s536 = <div title="title number 536">text number 536
   continued 536</div>;
const s537 = <div title="title number 537">text number 537
   continued 537</div>;
const s538 = <div title="title number 538">text number 538
   continued 538</div>;
const s539 = <div title="title number 539">text number 539
   continued 539</div>;
const s540 = <div title="title number 540">text number 540
   continued 540</div>;
const s541 = <div title="title number 541">text number 541
   continued 541</div>;
const s542 = <div title="title number 542">text number 542
   continued 542</div>;
const s543 = <div title="title number 543">text number 543
   continued 543</div>;
const s544 = <div title="title number 544">text number 544
   continued 544</div>;
const s545 = <div title="title number 545">text number 545
   continued 545</div>;
const s546 = <div title="title number 546">text number 546
   continued 546</div>;
const s547 = <div title="title number 547">text number 547
   continued 547</div>;
const s548 = <div title="title number 548">text number 548
   continued 548</div>;
const s549 = <div title="title number 549">text number 549
   continued 549</div>;
const s550 = <div title="title number 550">text number 550
   continued 550</div>;
const s551 = <div title="title number 551">text number 551
   continued 551</div>;
const s552 = <div title="title number 552">text number 552
   continued 552</div>;
const s553 = <div title="title number 553">text number 553
   continued 553</div>;
const s554 = <div title="title number 554">text number 554
   continued 554</div>;
const s555 = <div title="title number 555">text number 555
   continued 555</div>;
const s556 = <div title="title number 556">text number 556
   continued 556</div>;
const s557 = <div title="title number 557">text number 557
   continued 557</div>;
const s558 = <div title="title number 558">text number 558
   continued 558</div>;
const s559 = <div title="title number 559">text number 559
   continued 559</div>;
const s560 = <div title="title number 560">text number 560
   continued 560</div>;
const s561 = <div title="title number 561">text number 561
   continued 561</div>;
const s562 = <div title="title number 562">text number 562
   continued 562</div>;
const s563 = <div title="title number 563">text number 563
   continued 563</div>;
const s564 = <div title="title number 564">text number 564
   continued 564</div>;
const s565 = <div title="title number 565">text number 565
   continued 565</div>;
const s566 = <div title="title number 566">text number 566
   continued 566</div>;
const s567 = <div title="title number 567">text number 567
   continued 567</div>;
const s568 = <div title="title number 568">text number 568
   continued 568</div>;
const s569 = <div title="title number 569">text number 569
   continued 569</div>;
const s570 = <div title="title number 570">text number 570
   continued 570</div>;
const s571 = <div title="title number 571">text number 571
   continued 571</div>;
const s572 = <div title="title number 572">text number 572
   continued 572</div>;
const s573 = <div title="title number 573">text number 573
   continued 573</div>;
const s574 = <div title="title number 574">text number 574
   continued 574</div>;
const s575 = <div title="title number 575">text number 575
   continued 575</div>;
const s576 = <div title="title number 576">text number 576
   continued 576</div>;
const s577 = <div title="title number 577">text number 577
   continued 577</div>;
const s578 = <div title="title number 578">text number 578
   continued 578</div>;
const s579 = <div title="title number 579">text number 579
   continued 579</div>;
const s580 = <div title="title number 580">text number 580
   continued 580</div>;
const s581 = <div title="title number 581">text number 581
   continued 581</div>;
const s582 = <div title="title number 582">text number 582
   continued 582</div>;
const s583 = <div title="title number 583">text number 583
   continued 583</div>;
const s584 = <div title="title number 584">text number 584
   continued 584</div>;
const s585 = <div title="title number 585">text number 585
   continued 585</div>;
const s586 = <div title="title number 586">text number 586
   continued 586</div>;
const s587 = <div title="title number 587">text number 587
   continued 587</div>;
const s588 = <div title="title number 588">text number 588
   continued 588</div>;
const s589 = <div title="title number 589">text number 589
   continued 589</div>;
const s590 = <div title="title number 590">text number 590
   continued 590</div>;
const s591 = <div title="title number 591">text number 591
   continued 591</div>;
const s592 = <div title="title number 592">text number 592
   continued 592</div>;
const s593 = <div title="title number 593">text number 593
   continued 593</div>;
const s594 = <div title="title number 594">text number 594
   continued 594</div>;
const s595 = <div title="title number 595">text number 595
   continued 595</div>;
const s596 = <div title="title number 596">text number 596
   continued 596</div>;
const s597 = <div title="title number 597">text number 597
   continued 597</div>;
const s598 = <div title="title number 598">text number 598
   continued 598</div>;
const s599 = <div title="title number 599">text number 599
   continued 599</div>;
const s600 = <div title="title number 600">text number 600
   continued 600</div>;
const s601 = <div title="title number 601">text number 601
   continued 601</div>;
const s602 = <div title="title number 602">text number 602
   continued 602</div>;
const s603 = <div title="title number 603">text number 603
   continued 603</div>;
const s604 = <div title="title number 604">text number 604
   continued 604</div>;
const s605 = <div title="title number 605">text number 605
   continued 605</div>;
const s606 = <div title="title number 606">text number 606
   continued 606</div>;
const s607 = <div title="title number 607">text number 607
   continued 607</div>;
const s608 = <div title="title number 608">text number 608
   continued 608</div>;
const s609 = <div title="title number 609">text number 609
   continued 609</div>;
const s610 = <div title="title number 610">text number 610
   continued 610</div>;
const s611 = <div title="title number 611">text number 611
   continued 611</div>;
const s612 = <div title="title number 612">text number 612
   continued 612</div>;
const s613 = <div title="title number 613">text number 613
   continued 613</div>;
const s614 = <div title="title number 614">text number 614
   continued 614</div>;
const s615 = <div title="title number 615">text number 615
   continued 615</div>;
const s616 = <div title="title number 616">text number 616
   continued 616</div>;
const s617 = <div title="title number 617">text number 617
   continued 617</div>;
const s618 = <div title="title number 618">text number 618
   continued 618</div>;
const s619 = <div title="title number 619">text number 619
   continued 619</div>;
const s620 = <div title="title number 620">text number 620
   continued 620</div>;
const s621 = <div title="title number 621">text number 621
   continued 621</div>;
const s622 = <div title="title number 622">text number 622
   continued 622</div>;
const s623 = <div title="title number 623">text number 623
   continued 623</div>;
const s624 = <div title="title number 624">text number 624
   continued 624</div>;
const s625 = <div title="title number 625">text number 625
   continued 625</div>;
const s626 = <div title="title number 626">text number 626
   continued 626</div>;
const s627 = <div title="title number 627">text number 627
   continued 627</div>;
const s628 = <div title="title number 628">text number 628
   continued 628</div>;
const s629 = <div title="title number 629">text number 629
   continued 629</div>;
const s630 = <div title="title number 630">text number 630
   continued 630</div>;
const s631 = <div title="title number 631">text number 631
   continued 631</div>;
const s632 = <div title="title number 632">text number 632
   continued 632</div>;
const s633 = <div title="title number 633">text number 633
   continued 633</div>;
const s634 = <div title="title number 634">text number 634
   continued 634</div>;
const s635 = <div title="title number 635">text number 635
   continued 635</div>;
const s636 = <div title="title number 636">text number 636
   continued 636</div>;
const s637 = <div title="title number 637">text number 637
   continued 637</div>;
const s638 = <div title="title number 638">text number 638
   continued 638</div>;
const s639 = <div title="title number 639">text number 639
   continued 639</div>;
const s640 = <div title="title number 640">text number 640
   continued 640</div>;
const s641 = <div title="title number 641">text number 641
   continued 641</div>;
const s642 = <div title="title number 642">text number 642
   continued 642</div>;
const s643 = <div title="title number 643">text number 643
   continued 643</div>;
const s644 = <div title="title number 644">text number 644
   continued 644</div>;
const s645 = <div title="title number 645">text number 645
   continued 645</div>;
const s646 = <div title="title number 646">text number 646
   continued 646</div>;
const s647 = <div title="title number 647">text number 647
   continued 647</div>;
const s648 = <div title="title number 648">text number 648
   continued 648</div>;
const s649 = <div title="title number 649">text number 649
   continued 649</div>;
const s650 = <div title="title number 650">text number 650
   continued 650</div>;
const s651 = <div title="title number 651">text number 651
   continued 651</div>;
const s652 = <div title="title number 652">text number 652
   continued 652</div>;
const s653 = <div title="title number 653">text number 653
   continued 653</div>;
const s654 = <div title="title number 654">text number 654
   continued 654</div>;
const s655 = <div title="title number 655">text number 655
   continued 655</div>;
const s656 = <div title="title number 656">text number 656
   continued 656</div>;
const s657 = <div title="title number 657">text number 657
   continued 657</div>;
const s658 = <div title="title number 658">text number 658
   continued 658</div>;
const s659 = <div title="title number 659">text number 659
   continued 659</div>;
const s660 = <div title="title number 660">text number 660
   continued 660</div>;
const s661 = <div title="title number 661">text number 661
   continued 661</div>;
const s662 = <div title="title number 662">text number 662
   continued 662</div>;
const s663 = <div title="title number 663">text number 663
   continued 663</div>;
const s664 = <div title="title number 664">text number 664
   continued 664</div>;
const s665 = <div title="title number 665">text number 665
   continued 665</div>;
const s666 = <div title="title number 666">text number 666
   continued 666</div>;
const s667 = <div title="title number 667">text number 667
   continued 667</div>;
const s668 = <div title="title number 668">text number 668
   continued 668</div>;
const s669 = <div title="title number 669">text number 669
   continued 669</div>;
const s670 = <div title="title number 670">text number 670
   continued 670</div>;
const s671 = <div title="title number 671">text number 671
   continued 671</div>;
const s672 = <div title="title number 672">text number 672
   continued 672</div>;
const s673 = <div title="title number 673">text number 673
   continued 673</div>;
const s674 = <div title="title number 674">text number 674
   continued 674</div>;
const s675 = <div title="title number 675">text number 675
   continued 675</div>;
const s676 = <div title="title number 676">text number 676
   continued 676</div>;
const s677 = <div title="title number 677">text number 677
   continued 677</div>;
const s678 = <div title="title number 678">text number 678
   continued 678</div>;
const s679 = <div title="title number 679">text number 679
   continued 679</div>;
const s680 = <div title="title number 680">text number 680
   continued 680</div>;
const s681 = <div title="title number 681">text number 681
   continued 681</div>;
const s682 = <div title="title number 682">text number 682
   continued 682</div>;
const s683 = <div title="title number 683">text number 683
   continued 683</div>;
const s684 = <div title="title number 684">text number 684
   continued 684</div>;
const s685 = <div title="title number 685">text number 685
   continued 685</div>;
const s686 = <div title="title number 686">text number 686
   continued 686</div>;
const s687 = <div title="title number 687">text number 687
   continued 687</div>;
const s688 = <div title="title number 688">text number 688
   continued 688</div>;
const s689 = <div title="title number 689">text number 689
   continued 689</div>;
const s690 = <div title="title number 690">text number 690
   continued 690</div>;
const s691 = <div title="title number 691">text number 691
   continued 691</div>;
const s692 = <div title="title number 692">text number 692
   continued 692</div>;
const s693 = <div title="title number 693">text number 693
   continued 693</div>;
const s694 = <div title="title number 694">text number 694
   continued 694</div>;
const s695 = <div title="title number 695">text number 695
   continued 695</div>;
const s696 = <div title="title number 696">text number 696
   continued 696</div>;
const s697 = <div title="title number 697">text number 697
   continued 697</div>;
const s698 = <div title="title number 698">text number 698
   continued 698</div>;
const s699 = <div title="title number 699">text number 699
   continued 699</div>;
const s700 = <div title="title number 700">text number 700
   continued 700</div>;
const s701 = <div title="title number 701">text number 701
   continued 701</div>;
const s702 = <div title="title number 702">text number 702
   continued 702</div>;
const s703 = <div title="title number 703">text number 703
   continued 703</div>;
const s704 = <div title="title number 704">text number 704
   continued 704</div>;
const s705 = <div title="title number 705">text number 705
   continued 705</div>;
const s706 = <div title="title number 706">text number 706
   continued 706</div>;
const s707 = <div title="title number 707">text number 707
   continued 707</div>;
const s708 = <div title="title number 708">text number 708
   continued 708</div>;
const s709 = <div title="title number 709">text number 709
   continued 709</div>;
const s710 = <div title="title number 710">text number 710
   continued 710</div>;
const s711 = <div title="title number 711">text number 711
   continued 711</div>;
const s712 = <div title="title number 712">text number 712
   continued 712</div>;
const s713 = <div title="title number 713">text number 713
   continued 713</div>;
const s714 = <div title="title number 714">text number 714
   continued 714</div>;
const s715 = <div title="title number 715">text number 715
   continued 715</div>;
const s716 = <div title="title number 716">text number 716
   continued 716</div>;
const s717 = <div title="title number 717">text number 717
   continued 717</div>;
const s718 = <div title="title number 718">text number 718
   continued 718</div>;
const s719 = <div title="title number 719">text number 719
   continued 719</div>;
const s720 = <div title="title number 720">text number 720
   continued 720</div>;
const s721 = <div title="title number 721">text number 721
   continued 721</div>;
const s722 = <div title="title number 722">text number 722
   continued 722</div>;
const s723 = <div title="title number 723">text number 723
   continued 723</div>;
const s724 = <div title="title number 724">text number 724
   continued 724</div>;
const s725 = <div title="title number 725">text number 725
   continued 725</div>;
const s726 = <div title="title number 726">text number 726
   continued 726</div>;
const s727 = <div title="title number 727">text number 727
   continued 727</div>;
const s728 = <div title="title number 728">text number 728
   continued 728</div>;
const s729 = <div title="title number 729">text number 729
   continued 729</div>;
const s730 = <div title="title number 730">text number 730
   continued 730</div>;
const s731 = <div title="title number 731">text number 731
   continued 731</div>;
const s732 = <div title="title number 732">text number 732
   continued 732</div>;
const s733 = <div title="title number 733">text number 733
   continued 733</div>;
const s734 = <div title="title number 734">text number 734
   continued 734</div>;
const s735 = <div title="title number 735">text number 735
   continued 735</div>;
const s736 = <div title="title number 736">text number 736
   continued 736</div>;
const s737 = <div title="title number 737">text number 737
   continued 737</div>;
const s738 = <div title="title number 738">text number 738
   continued 738</div>;
const s739 = <div title="title number 739">text number 739
   continued 739</div>;
const s740 = <div title="title number 740">text number 740
   continued 740</div>;
const s741 = <div title="title number 741">text number 741
   continued 741</div>;
const s742 = <div title="title number 742">text number 742
   continued 742</div>;
const s743 = <div title="title number 743">text number 743
   continued 743</div>;
const s744 = <div title="title number 744">text number 744
   continued 744</div>;
const s745 = <div title="title number 745">text number 745
   continued 745</div>;
const s746 = <div title="title number 746">text number 746
   continued 746</div>;
const s747 = <div title="title number 747">text number 747
   continued 747</div>;
const s748 = <div title="title number 748">text number 748
   continued 748</div>;
const s749 = <div title="title number 749">text number 749
   continued 749</div>;
const s750 = <div title="title number 750">text number 750
   continued 750</div>;
const s751 = <div title="title number 751">text number 751
   continued 751</div>;
const s752 = <div title="title number 752">text number 752
   continued 752</div>;
const s753 = <div title="title number 753">text number 753
   continued 753</div>;
const s754 = <div title="title number 754">text number 754
   continued 754</div>;
const s755 = <div title="title number 755">text number 755
   continued 755</div>;
const s756 = <div title="title number 756">text number 756
   continued 756</div>;
const s757 = <div title="title number 757">text number 757
   continued 757</div>;
const s758 = <div title="title number 758">text number 758
   continued 758</div>;
const s759 = <div title="title number 759">text number 759
   continued 759</div>;
const s760 = <div title="title number 760">text number 760
   continued 760</div>;
const s761 = <div title="title number 761">text number 761
   continued 761</div>;
const s762 = <div title="title number 762">text number 762
   continued 762</div>;
const s763 = <div title="title number 763">text number 763
   continued 763</div>;
const s764 = <div title="title number 764">text number 764
   continued 764</div>;
const s765 = <div title="title number 765">text number 765
   continued 765</div>;
const s766 = <div title="title number 766">text number 766
   continued 766</div>;
const s767 = <div title="title number 767">text number 767
   continued 767</div>;
const s768 = <div title="title number 768">text number 768
   continued 768</div>;
const s769 = <div title="title number 769">text number 769
   continued 769</div>;
const s770 = <div title="title number 770">text number 770
   continued 770</div>;
const s771 = <div title="title number 771">text number 771
   continued 771</div>;
const s772 = <div title="title number 772">text number 772
   continued 772</div>;
const s773 = <div title="title number 773">text number 773
   continued 773</div>;
const s774 = <div title="title number 774">text number 774
   continued 774</div>;
const s775 = <div title="title number 775">text number 775
   continued 775</div>;
const s776 = <div title="title number 776">text number 776
   continued 776</div>;
const s777 = <div title="title number 777">text number 777
   continued 777</div>;
const s778 = <div title="title number 778">text number 778
   continued 778</div>;
const s779 = <div title="title number 779">text number 779
   continued 779</div>;
const s780 = <div title="title number 780">text number 780
   continued 780</div>;
const s781 = <div title="title number 781">text number 781
   continued 781</div>;
const s782 = <div title="title number 782">text number 782
   continued 782</div>;
const s783 = <div title="title number 783">text number 783
   continued 783</div>;
const s784 = <div title="title number 784">text number 784
   continued 784</div>;
const s785 = <div title="title number 785">text number 785
   continued 785</div>;
const s786 = <div title="title number 786">text number 786
   continued 786</div>;
const s787 = <div title="title number 787">text number 787
   continued 787</div>;
const s788 = <div title="title number 788">text number 788
   continued 788</div>;
const s789 = <div title="title number 789">text number 789
   continued 789</div>;
const s790 = <div title="title number 790">text number 790
   continued 790</div>;
const s791 = <div title="title number 791">text number 791
   continued 791</div>;
const s792 = <div title="title number 792">text number 792
   continued 792</div>;
const s793 = <div title="title number 793">text number 793
   continued 793</div>;
const s794 = <div title="title number 794">text number 794
   continued 794</div>;
const s795 = <div title="title number 795">text number 795
   continued 795</div>;
const s796 = <div title="title number 796">text number 796
   continued 796</div>;
const s797 = <div title="title number 797">text number 797
   continued 797</div>;
const s798 = <div title="title number 798">text number 798
   continued 798</div>;
const s799 = <div title="title number 799">text number 799
   continued 799</div>;
const s800 = <div title="title number 800">text number 800
   continued 800</div>;
const s801 = <div title="title number 801">text number 801
   continued 801</div>;
const s802 = <div title="title number 802">text number 802
   continued 802</div>;
const s803 = <div title="title number 803">text number 803
   continued 803</div>;
const s804 = <div title="title number 804">text number 804
   continued 804</div>;
const s805 = <div title="title number 805">text number 805
   continued 805</div>;
const s806 = <div title="title number 806">text number 806
   continued 806</div>;
const s807 = <div title="title number 807">text number 807
   continued 807</div>;
const s808 = <div title="title number 808">text number 808
   continued 808</div>;
const s809 = <div title="title number 809">text number 809
   continued 809</div>;
const s810 = <div title="title number 810">text number 810
   continued 810</div>;
const s811 = <div title="title number 811">text number 811
   continued 811</div>;
const s812 = <div title="title number 812">text number 812
   continued 812</div>;
const s813 = <div title="title number 813">text number 813
   continued 813</div>;
const s814 = <div title="title number 814">text number 814
   continued 814</div>;
const s815 = <div title="title number 815">text number 815
   continued 815</div>;
const s816 = <div title="title number 816">text number 816
   continued 816</div>;
const s817 = <div title="title number 817">text number 817
   continued 817</div>;
const s818 = <div title="title number 818">text number 818
   continued 818</div>;
const s819 = <div title="title number 819">text number 819
   continued 819</div>;
const s820 = <div title="title number 820">text number 820
   continued 820</div>;
const s821 = <div title="title number 821">text number 821
   continued 821</div>;
const s822 = <div title="title number 822">text number 822
   continued 822</div>;
const s823 = <div title="title number 823">text number 823
   continued 823</div>;
const s824 = <div title="title number 824">text number 824
   continued 824</div>;
const s825 = <div title="title number 825">text number 825
   continued 825</div>;
const s826 = <div title="title number 826">text number 826
   continued 826</div>;
const s827 = <div title="title number 827">text number 827
   continued 827</div>;
const s828 = <div title="title number 828">text number 828
   continued 828</div>;
const s829 = <div title="title number 829">text number 829
   continued 829</div>;
const s830 = <div title="title number 830">text number 830
   continued 830</div>;
const s831 = <div title="title number 831">text number 831
   continued 831</div>;
const s832 = <div title="title number 832">text number 832
   continued 832</div>;
const s833 = <div title="title number 833">text number 833
   continued 833</div>;
const s834 = <div title="title number 834">text number 834
   continued 834</div>;
const s835 = <div title="title number 835">text number 835
   continued 835</div>;
const s836 = <div title="title number 836">text number 836
   continued 836</div>;
const s837 = <div title="title number 837">text number 837
   continued 837</div>;
const s838 = <div title="title number 838">text number 838
   continued 838</div>;
const s839 = <div title="title number 839">text number 839
   continued 839</div>;
const s840 = <div title="title number 840">text number 840
   continued 840</div>;
const s841 = <div title="title number 841">text number 841
   continued 841</div>;
const s842 = <div title="title number 842">text number 842
   continued 842</div>;
const s843 = <div title="title number 843">text number 843
   continued 843</div>;
const s844 = <div title="title number 844">text number 844
   continued 844</div>;
const s845 = <div title="title number 845">text number 845
   continued 845</div>;
const s846 = <div title="title number 846">text number 846
   continued 846</div>;
const s847 = <div title="title number 847">text number 847
   continued 847</div>;
const s848 = <div title="title number 848">text number 848
   continued 848</div>;
const s849 = <div title="title number 849">text number 849
   continued 849</div>;
const s850 = <div title="title number 850">text number 850
   continued 850</div>;
const s851 = <div title="title number 851">text number 851
   continued 851</div>;
const s852 = <div title="title number 852">text number 852
   continued 852</div>;
const s853 = <div title="title number 853">text number 853
   continued 853</div>;
const s854 = <div title="title number 854">text number 854
   continued 854</div>;
const s855 = <div title="title number 855">text number 855
   continued 855</div>;
const s856 = <div title="title number 856">text number 856
   continued 856</div>;
const s857 = <div title="title number 857">text number 857
   continued 857</div>;
const s858 = <div title="title number 858">text number 858
   continued 858</div>;
const s859 = <div title="title number 859">text number 859
   continued 859</div>;
const s860 = <div title="title number 860">text number 860
   continued 860</div>;
const s861 = <div title="title number 861">text number 861
   continued 861</div>;
const s862 = <div title="title number 862">text number 862
   continued 862</div>;
const s863 = <div title="title number 863">text number 863
   continued 863</div>;
const s864 = <div title="title number 864">text number 864
   continued 864</div>;
const s865 = <div title="title number 865">text number 865
   continued 865</div>;
const s866 = <div title="title number 866">text number 866
   continued 866</div>;
const s867 = <div title="title number 867">text number 867
   continued 867</div>;
const s868 = <div title="title number 868">text number 868
   continued 868</div>;
const s869 = <div title="title number 869">text number 869
   continued 869</div>;
const s870 = <div title="title number 870">text number 870
   continued 870</div>;
const s871 = <div title="title number 871">text number 871
   continued 871</div>;
const s872 = <div title="title number 872">text number 872
   continued 872</div>;
const s873 = <div title="title number 873">text number 873
   continued 873</div>;
const s874 = <div title="title number 874">text number 874
   continued 874</div>;
const s875 = <div title="title number 875">text number 875
   continued 875</div>;
const s876 = <div title="title number 876">text number 876
   continued 876</div>;
const s877 = <div title="title number 877">text number 877
   continued 877</div>;
const s878 = <div title="title number 878">text number 878
   continued 878</div>;
const s879 = <div title="title number 879">text number 879
   continued 879</div>;
const s880 = <div title="title number 880">text number 880
   continued 880</div>;
const s881 = <div title="title number 881">text number 881
   continued 881</div>;
const s882 = <div title="title number 882">text number 882
   continued 882</div>;
const s883 = <div title="title number 883">text number 883
   continued 883</div>;
const s884 = <div title="title number 884">text number 884
   continued 884</div>;
const s885 = <div title="title number 885">text number 885
   continued 885</div>;
const s886 = <div title="title number 886">text number 886
   continued 886</div>;
const s887 = <div title="title number 887">text number 887
   continued 887</div>;
const s888 = <div title="title number 888">text number 888
   continued 888</div>;
const s889 = <div title="title number 889">text number 889
   continued 889</div>;
const s890 = <div title="title number 890">text number 890
   continued 890</div>;
const s891 = <div title="title number 891">text number 891
   continued 891</div>;
const s892 = <div title="title number 892">text number 892
   continued 892</div>;
const s893 = <div title="title number 893">text number 893
   continued 893</div>;
const s894 = <div title="title number 894">text number 894
   continued 894</div>;
const s895 = <div title="title number 895">text number 895
   continued 895</div>;
const s896 = <div title="title number 896">text number 896
   continued 896</div>;
const s897 = <div title="title number 897">text number 897
   continued 897</div>;
const s898 = <div title="title number 898">text number 898
   continued 898</div>;
const s899 = <div title="title number 899">text number 899
   continued 899</div>;
const s900 = <div title="title number 900">text number 900
   continued 900</div>;
const s901 = <div title="title number 901">text number 901
   continued 901</div>;
const s902 = <div title="title number 902">text number 902
   continued 902</div>;
const s903 = <div title="title number 903">text number 903
   continued 903</div>;
const s904 = <div title="title number 904">text number 904
   continued 904</div>;
const s905 = <div title="title number 905">text number 905
   continued 905</div>;
const s906 = <div title="title number 906">text number 906
   continued 906</div>;
const s907 = <div title="title number 907">text number 907
   continued 907</div>;
const s908 = <div title="title number 908">text number 908
   continued 908</div>;
const s909 = <div title="title number 909">text number 909
   continued 909</div>;
const s910 = <div title="title number 910">text number 910
   continued 910</div>;
const s911 = <div title="title number 911">text number 911
   continued 911</div>;
const s912 = <div title="title number 912">text number 912
   continued 912</div>;
const s913 = <div title="title number 913">text number 913
   continued 913</div>;
const s914 = <div title="title number 914">text number 914
   continued 914</div>;
const s915 = <div title="title number 915">text number 915
   continued 915</div>;
const s916 = <div title="title number 916">text number 916
   continued 916</div>;
const s917 = <div title="title number 917">text number 917
   continued 917</div>;
const s918 = <div title="title number 918">text number 918
   continued 918</div>;
const s919 = <div title="title number 919">text number 919
   continued 919</div>;
const s920 = <div title="title number 920">text number 920
   continued 920</div>;
const s921 = <div title="title number 921">text number 921
   continued 921</div>;
const s922 = <div title="title number 922">text number 922
   continued 922</div>;
const s923 = <div title="title number 923">text number 923
   continued 923</div>;
const s924 = <div title="title number 924">text number 924
   continued 924</div>;
const s925 = <div title="title number 925">text number 925
   continued 925</div>;
const s926 = <div title="title number 926">text number 926
   continued 926</div>;
const s927 = <div title="title number 927">text number 927
   continued 927</div>;
const s928 = <div title="title number 928">text number 928
   continued 928</div>;
const s929 = <div title="title number 929">text number 929
   continued 929</div>;
const s930 = <div title="title number 930">text number 930
   continued 930</div>;
const s931 = <div title="title number 931">text number 931
   continued 931</div>;
const s932 = <div title="title number 932">text number 932
   continued 932</div>;
const s933 = <div title="title number 933">text number 933
   continued 933</div>;
const s934 = <div title="title number 934">text number 934
   continued 934</div>;
const s935 = <div title="title number 935">text number 935
   continued 935</div>;
const s936 = <div title="title number 936">text number 936
   continued 936</div>;
const s937 = <div title="title number 937">text number 937
   continued 937</div>;
const s938 = <div title="title number 938">text number 938
   continued 938</div>;
const s939 = <div title="title number 939">text number 939
   continued 939</div>;
const s940 = <div title="title number 940">text number 940
   continued 940</div>;
const s941 = <div title="title number 941">text number 941
   continued 941</div>;
const s942 = <div title="title number 942">text number 942
   continued 942</div>;
const s943 = <div title="title number 943">text number 943
   continued 943</div>;
const s944 = <div title="title number 944">text number 944
   continued 944</div>;
const s945 = <div title="title number 945">text number 945
   continued 945</div>;
const s946 = <div title="title number 946">text number 946
   continued 946</div>;
const s947 = <div title="title number 947">text number 947
   continued 947</div>;
const s948 = <div title="title number 948">text number 948
   continued 948</div>;
const s949 = <div title="title number 949">text number 949
   continued 949</div>;
const s950 = <div title="title number 950">text number 950
   continued 950</div>;
const s951 = <div title="title number 951">text number 951
   continued 951</div>;
const s952 = <div title="title number 952">text number 952
   continued 952</div>;
const s953 = <div title="title number 953">text number 953
   continued 953</div>;
const s954 = <div title="title number 954">text number 954
   continued 954</div>;
const s955 = <div title="title number 955">text number 955
   continued 955</div>;
const s956 = <div title="title number 956">text number 956
   continued 956</div>;
const s957 = <div title="title number 957">text number 957
   continued 957</div>;
const s958 = <div title="title number 958">text number 958
   continued 958</div>;
const s959 = <div title="title number 959">text number 959
   continued 959</div>;
const s960 = <div title="title number 960">text number 960
   continued 960</div>;
const s961 = <div title="title number 961">text number 961
   continued 961</div>;
const s962 = <div title="title number 962">text number 962
   continued 962</div>;
const s963 = <div title="title number 963">text number 963
   continued 963</div>;
const s964 = <div title="title number 964">text number 964
   continued 964</div>;
const s965 = <div title="title number 965">text number 965
   continued 965</div>;
const s966 = <div title="title number 966">text number 966
   continued 966</div>;
const s967 = <div title="title number 967">text number 967
   continued 967</div>;
const s968 = <div title="title number 968">text number 968
   continued 968</div>;
const s969 = <div title="title number 969">text number 969
   continued 969</div>;
const s970 = <div title="title number 970">text number 970
   continued 970</div>;
const s971 = <div title="title number 971">text number 971
   continued 971</div>;
const s972 = <div title="title number 972">text number 972
   continued 972</div>;
const s973 = <div title="title number 973">text number 973
   continued 973</div>;
const s974 = <div title="title number 974">text number 974
   continued 974</div>;
const s975 = <div title="title number 975">text number 975
   continued 975</div>;
const s976 = <div title="title number 976">text number 976
   continued 976</div>;
const s977 = <div title="title number 977">text number 977
   continued 977</div>;
const s978 = <div title="title number 978">text number 978
   continued 978</div>;
const s979 = <div title="title number 979">text number 979
   continued 979</div>;
const s980 = <div title="title number 980">text number 980
   continued 980</div>;
const s981 = <div title="title number 981">text number 981
   continued 981</div>;
const s982 = <div title="title number 982">text number 982
   continued 982</div>;
const s983 = <div title="title number 983">text number 983
   continued 983</div>;
const s984 = <div title="title number 984">text number 984
   continued 984</div>;
const s985 = <div title="title number 985">text number 985
   continued 985</div>;
const s986 = <div title="title number 986">text number 986
   continued 986</div>;
const s987 = <div title="title number 987">text number 987
   continued 987</div>;
const s988 = <div title="title number 988">text number 988
   continued 988</div>;
const s989 = <div title="title number 989">text number 989
   continued 989</div>;
const s990 = <div title="title number 990">text number 990
   continued 990</div>;
const s991 = <div title="title number 991">text number 991
   continued 991</div>;
const s992 = <div title="title number 992">text number 992
   continued 992</div>;
const s993 = <div title="title number 993">text number 993
   continued 993</div>;
const s994 = <div title="title number 994">text number 994
   continued 994</div>;
const s995 = <div title="title number 995">text number 995
   continued 995</div>;
const s996 = <div title="title number 996">text number 996
   continued 996</div>;
const s997 = <div title="title number 997">text number 997
   continued 997</div>;
const s998 = <div title="title number 998">text number 998
   continued 998</div>;
const s999 = <div title="title number 999">text number 999
   continued 999</div>;
const s1000 = <div title="title number 1000">text number 1000
   continued 1000</div>;
const s1001 = <div title="title number 1001">text number 1001
   continued 1001</div>;
const s1002 = <div title="title number 1002">text number 1002
   continued 1002</div>;
const s1003 = <div title="title number 1003">text number 1003
   continued 1003</div>;
const s1004 = <div title="title number 1004">text number 1004
   continued 1004</div>;
const s1005 = <div title="title number 1005">text number 1005
   continued 1005</div>;
const s1006 = <div title="title number 1006">text number 1006
   continued 1006</div>;
const s1007 = <div title="title number 1007">text number 1007
   continued 1007</div>;
const s1008 = <div title="title number 1008">text number 1008
   continued 1008</div>;
const s1009 = <div title="title number 1009">text number 1009
   continued 1009</div>;
const s1010 = <div title="title number 1010">text number 1010
   continued 1010</div>;
const s1011 = <div title="title number 1011">text number 1011
   continued 1011</div>;
const s1012 = <div title="title number 1012">text number 1012
   continued 1012</div>;
const s1013 = <div title="title number 1013">text number 1013
   continued 1013</div>;
const s1014 = <div title="title number 1014">text number 1014
   continued 1014</div>;
const s1015 = <div title="title number 1015">text number 1015
   continued 1015</div>;
const s1016 = <div title="title number 1016">text number 1016
   continued 1016</div>;
const s1017 = <div title="title number 1017">text number 1017
   continued 1017</div>;
const s1018 = <div title="title number 1018">text number 1018
   continued 1018</div>;
const s1019 = <div title="title number 1019">text number 1019
   continued 1019</div>;
const s1020 = <div title="title number 1020">text number 1020
   continued 1020</div>;
const s1021 = <div title="title number 1021">text number 1021
   continued 1021</div>;
const s1022 = <div title="title number 1022">text number 1022
   continued 1022</div>;
const s1023 = <div title="title number 1023">text number 1023
   continued 1023</div>;
const s1024 = <div title="title number 1024">text number 1024
   continued 1024</div>;
const s1025 = <div title="title number 1025">text number 1025
   continued 1025</div>;
const s1026 = <div title="title number 1026">text number 1026
   continued 1026</div>;
const s1027 = <div title="title number 1027">text number 1027
   continued 1027</div>;
const s1028 = <div title="title number 1028">text number 1028
   continued 1028</div>;
const s1029 = <div title="title number 1029">text number 1029
   continued 1029</div>;
const s1030 = <div title="title number 1030">text number 1030
   continued 1030</div>;
const s1031 = <div title="title number 1031">text number 1031
   continued 1031</div>;
const s1032 = <div title="title number 1032">text number 1032
   continued 1032</div>;
const s1033 = <div title="title number 1033">text number 1033
   continued 1033</div>;
const s1034 = <div title="title number 1034">text number 1034
   continued 1034</div>;
const s1035 = <div title="title number 1035">text number 1035
   continued 1035</div>;
const s1036 = <div title="title number 1036">text number 1036
   continued 1036</div>;
const s1037 = <div title="title number 1037">text number 1037
   continued 1037</div>;
const s1038 = <div title="title number 1038">text number 1038
   continued 1038</div>;
const s1039 = <div title="title number 1039">text number 1039
   continued 1039</div>;
const s1040 = <div title="title number 1040">text number 1040
   continued 1040</div>;
const s1041 = <div title="title number 1041">text number 1041
   continued 1041</div>;
const s1042 = <div title="title number 1042">text number 1042
   continued 1042</div>;
const s1043 = <div title="title number 1043">text number 1043
   continued 1043</div>;
const s1044 = <div title="title number 1044">text number 1044
   continued 1044</div>;
const s1045 = <div title="title number 1045">text number 1045
   continued 1045</div>;
const s1046 = <div title="title number 1046">text number 1046
   continued 1046</div>;
const s1047 = <div title="title number 1047">text number 1047
   continued 1047</div>;
const s1048 = <div title="title number 1048">text number 1048
   continued 1048</div>;
const s1049 = <div title="title number 1049">text number 1049
   continued 1049</div>;
const s1050 = <div title="title number 1050">text number 1050
   continued 1050</div>;
const s1051 = <div title="title number 1051">text number 1051
   continued 1051</div>;
const s1052 = <div title="title number 1052">text number 1052
   continued 1052</div>;
const s1053 = <div title="title number 1053">text number 1053
   continued 1053</div>;
const s1054 = <div title="title number 1054">text number 1054
   continued 1054</div>;
const s1055 = <div title="title number 1055">text number 1055
   continued 1055</div>;
const s1056 = <div title="title number 1056">text number 1056
   continued 1056</div>;
const s1057 = <div title="title number 1057">text number 1057
   continued 1057</div>;
const s1058 = <div title="title number 1058">text number 1058
   continued 1058</div>;
const s1059 = <div title="title number 1059">text number 1059
   continued 1059</div>;
const s1060 = <div title="title number 1060">text number 1060
   continued 1060</div>;
const s1061 = <div title="title number 1061">text number 1061
   continued 1061</div>;
const s1062 = <div title="title number 1062">text number 1062
   continued 1062</div>;
const s1063 = <div title="title number 1063">text number 1063
   continued 1063</div>;
const s1064 = <div title="title number 1064">text number 1064
   continued 1064</div>;
const s1065 = <div title="title number 1065">text number 1065
   continued 1065</div>;
const s1066 = <div title="title number 1066">text number 1066
   continued 1066</div>;
const s1067 = <div title="title number 1067">text number 1067
   continued 1067</div>;
const s1068 = <div title="title number 1068">text number 1068
   continued 1068</div>;
const s1069 = <div title="title number 1069">text number 1069
   continued 1069</div>;
const s1070 = <div title="title number 1070">text number 1070
   continued 1070</div>;
const s1071 = <div title="title number 1071">text number 1071
   continued 1071</div>;
const s1072 = <div title="title number 1072">text number 1072
   continued 1072</div>;
const s1073 = <div title="title number 1073">text number 1073
   continued 1073</div>;
const s1074 = <div title="title number 1074">text number 1074
   continued 1074</div>;
const s1075 = <div title="title number 1075">text number 1075
   continued 1075</div>;
const s1076 = <div title="title number 1076">text number 1076
   continued 1076</div>;
const s1077 = <div title="title number 1077">text number 1077
   continued 1077</div>;
const s1078 = <div title="title number 1078">text number 1078
   continued 1078</div>;
const s1079 = <div title="title number 1079">text number 1079
   continued 1079</div>;
const s1080 = <div title="title number 1080">text number 1080
   continued 1080</div>;
const s1081 = <div title="title number 1081">text number 1081
   continued 1081</div>;
const s1082 = <div title="title number 1082">text number 1082
   continued 1082</div>;
const s1083 = <div title="title number 1083">text number 1083
   continued 1083</div>;
const s1084 = <div title="title number 1084">text number 1084
   continued 1084</div>;
const s1085 = <div title="title number 1085">text number 1085
   continued 1085</div>;
const s1086 = <div title="title number 1086">text number 1086
   continued 1086</div>;
const s1087 = <div title="title number 1087">text number 1087
   continued 1087</div>;
const s1088 = <div title="title number 1088">text number 1088
   continued 1088</div>;
const s1089 = <div title="title number 1089">text number 1089
   continued 1089</div>;
const s1090 = <div title="title number 1090">text number 1090
   continued 1090</div>;
const s1091 = <div title="title number 1091">text number 1091
   continued 1091</div>;
const s1092 = <div title="title number 1092">text number 1092
   continued 1092</div>;
const s1093 = <div title="title number 1093">text number 1093
   continued 1093</div>;
const s1094 = <div title="title number 1094">text number 1094
   continued 1094</div>;
const s1095 = <div title="title number 1095">text number 1095
   continued 1095</div>;
const s1096 = <div title="title number 1096">text number 1096
   continued 1096</div>;
const s1097 = <div title="title number 1097">text number 1097
   continued 1097</div>;
const s1098 = <div title="title number 1098">text number 1098
   continued 1098</div>;
const s1099 = <div title="title number 1099">text number 1099
   continued 1099</div>;
const s1100 = <div title="title number 1100">text number 1100
   continued 1100</div>;
const s1101 = <div title="title number 1101">text number 1101
   continued 1101</div>;
const s1102 = <div title="title number 1102">text number 1102
   continued 1102</div>;
const s1103 = <div title="title number 1103">text number 1103
   continued 1103</div>;
const s1104 = <div title="title number 1104">text number 1104
   continued 1104</div>;
const s1105 = <div title="title number 1105">text number 1105
   continued 1105</div>;
const s1106 = <div title="title number 1106">text number 1106
   continued 1106</div>;
const s1107 = <div title="title number 1107">text number 1107
   continued 1107</div>;
const s1108 = <div title="title number 1108">text number 1108
   continued 1108</div>;
const s1109 = <div title="title number 1109">text number 1109
   continued 1109</div>;
const s1110 = <div title="title number 1110">text number 1110
   continued 1110</div>;
const s1111 = <div title="title number 1111">text number 1111
   continued 1111</div>;
const s1112 = <div title="title number 1112">text number 1112
   continued 1112</div>;
const s1113 = <div title="title number 1113">text number 1113
   continued 1113</div>;
const s1114 = <div title="title number 1114">text number 1114
   continued 1114</div>;
const s1115 = <div title="title number 1115">text number 1115
   continued 1115</div>;
const s1116 = <div title="title number 1116">text number 1116
   continued 1116</div>;
const s1117 = <div title="title number 1117">text number 1117
   continued 1117</div>;
const s1118 = <div title="title number 1118">text number 1118
   continued 1118</div>;
const s1119 = <div title="title number 1119">text number 1119
   continued 1119</div>;
const s1120 = <div title="title number 1120">text number 1120
   continued 1120</div>;
const s1121 = <div title="title number 1121">text number 1121
   continued 1121</div>;
const s1122 = <div title="title number 1122">text number 1122
   continued 1122</div>;
const s1123 = <div title="title number 1123">text number 1123
   continued 1123</div>;
const s1124 = <div title="title number 1124">text number 1124
   continued 1124</div>;
const s1125 = <div title="title number 1125">text number 1125
   continued 1125</div>;
const s1126 = <div title="title number 1126">text number 1126
   continued 1126</div>;
const s1127 = <div title="title number 1127">text number 1127
   continued 1127</div>;
const s1128 = <div title="title number 1128">text number 1128
   continued 1128</div>;
const s1129 = <div title="title number 1129">text number 1129
   continued 1129</div>;
const s1130 = <div title="title number 1130">text number 1130
   continued 1130</div>;
const s1131 = <div title="title number 1131">text number 1131
   continued 1131</div>;
const s1132 = <div title="title number 1132">text number 1132
   continued 1132</div>;
const s1133 = <div title="title number 1133">text number 1133
   continued 1133</div>;
const s1134 = <div title="title number 1134">text number 1134
   continued 1134</div>;
const s1135 = <div title="title number 1135">text number 1135
   continued 1135</div>;
const s1136 = <div title="title number 1136">text number 1136
   continued 1136</div>;
const s1137 = <div title="title number 1137">text number 1137
   continued 1137</div>;
const s1138 = <div title="title number 1138">text number 1138
   continued 1138</div>;
const s1139 = <div title="title number 1139">text number 1139
   continued 1139</div>;
const s1140 = <div title="title number 1140">text number 1140
   continued 1140</div>;
const s1141 = <div title="title number 1141">text number 1141
   continued 1141</div>;
const s1142 = <div title="title number 1142">text number 1142
   continued 1142</div>;
const s1143 = <div title="title number 1143">text number 1143
   continued 1143</div>;
const s1144 = <div title="title number 1144">text number 1144
   continued 1144</div>;
const s1145 = <div title="title number 1145">text number 1145
   continued 1145</div>;
const s1146 = <div title="title number 1146">text number 1146
   continued 1146</div>;
const s1147 = <div title="title number 1147">text number 1147
   continued 1147</div>;
const s1148 = <div title="title number 1148">text number 1148
   continued 1148</div>;
const s1149 = <div title="title number 1149">text number 1149
   continued 1149</div>;
const s1150 = <div title="title number 1150">text number 1150
   continued 1150</div>;
const s1151 = <div title="title number 1151">text number 1151
   continued 1151</div>;
const s1152 = <div title="title number 1152">text number 1152
   continued 1152</div>;
const s1153 = <div title="title number 1153">text number 1153
   continued 1153</div>;
const s1154 = <div title="title number 1154">text number 1154
   continued 1154</div>;
const s1155 = <div title="title number 1155">text number 1155
   continued 1155</div>;
const s1156 = <div title="title number 1156">text number 1156
   continued 1156</div>;
const s1157 = <div title="title number 1157">text number 1157
   continued 1157</div>;
const s1158 = <div title="title number 1158">text number 1158
   continued 1158</div>;
const s1159 = <div title="title number 1159">text number 1159
   continued 1159</div>;
const s1160 = <div title="title number 1160">text number 1160
   continued 1160</div>;
const s1161 = <div title="title number 1161">text number 1161
   continued 1161</div>;
const s1162 = <div title="title number 1162">text number 1162
   continued 1162</div>;
const s1163 = <div title="title number 1163">text number 1163
   continued 1163</div>;
const s1164 = <div title="title number 1164">text number 1164
   continued 1164</div>;
const s1165 = <div title="title number 1165">text number 1165
   continued 1165</div>;
const s1166 = <div title="title number 1166">text number 1166
   continued 1166</div>;
const s1167 = <div title="title number 1167">text number 1167
   continued 1167</div>;
const s1168 = <div title="title number 1168">text number 1168
   continued 1168</div>;
const s1169 = <div title="title number 1169">text number 1169
   continued 1169</div>;
const s1170 = <div title="title number 1170">text number 1170
   continued 1170</div>;
const s1171 = <div title="title number 1171">text number 1171
   continued 1171</div>;
const s1172 = <div title="title number 1172">text number 1172
   continued 1172</div>;
const s1173 = <div title="title number 1173">text number 1173
   continued 1173</div>;
const s1174 = <div title="title number 1174">text number 1174
   continued 1174</div>;
const s1175 = <div title="title number 1175">text number 1175
   continued 1175</div>;
const s1176 = <div title="title number 1176">text number 1176
   continued 1176</div>;
const s1177 = <div title="title number 1177">text number 1177
   continued 1177</div>;
const s1178 = <div title="title number 1178">text number 1178
   continued 1178</div>;
const s1179 = <div title="title number 1179">text number 1179
   continued 1179</div>;
const s1180 = <div title="title number 1180">text number 1180
   continued 1180</div>;
const s1181 = <div title="title number 1181">text number 1181
   continued 1181</div>;
const s1182 = <div title="title number 1182">text number 1182
   continued 1182</div>;
const s1183 = <div title="title number 1183">text number 1183
   continued 1183</div>;
const s1184 = <div title="title number 1184">text number 1184
   continued 1184</div>;
const s1185 = <div title="title number 1185">text number 1185
   continued 1185</div>;
const s1186 = <div title="title number 1186">text number 1186
   continued 1186</div>;
const s1187 = <div title="title number 1187">text number 1187
   continued 1187</div>;
const s1188 = <div title="title number 1188">text number 1188
   continued 1188</div>;
const s1189 = <div title="title number 1189">text number 1189
   continued 1189</div>;
const s1190 = <div title="title number 1190">text number 1190
   continued 1190</div>;
const s1191 = <div title="title number 1191">text number 1191
   continued 1191</div>;
const s1192 = <div title="title number 1192">text number 1192
   continued 1192</div>;
const s1193 = <div title="title number 1193">text number 1193
   continued 1193</div>;
const s1194 = <div title="title number 1194">text number 1194
   continued 1194</div>;
const s1195 = <div title="title number 1195">text number 1195
   continued 1195</div>;
const s1196 = <div title="title number 1196">text number 1196
   continued 1196</div>;
const s1197 = <div title="title number 1197">text number 1197
   continued 1197</div>;
const s1198 = <div title="title number 1198">text number 1198
   continued 1198</div>;
const s1199 = <div title="title number 1199">text number 1199
   continued 1199</div>;
const s1200 = <div title="title number 1200">text number 1200
   continued 1200</div>;
const s1201 = <div title="title number 1201">text number 1201
   continued 1201</div>;
const s1202 = <div title="title number 1202">text number 1202
   continued 1202</div>;
const s1203 = <div title="title number 1203">text number 1203
   continued 1203</div>;
const s1204 = <div title="title number 1204">text number 1204
   continued 1204</div>;
const s1205 = <div title="title number 1205">text number 1205
   continued 1205</div>;
const s1206 = <div title="title number 1206">text number 1206
   continued 1206</div>;
const s1207 = <div title="title number 1207">text number 1207
   continued 1207</div>;
const s1208 = <div title="title number 1208">text number 1208
   continued 1208</div>;
const s1209 = <div title="title number 1209">text number 1209
   continued 1209</div>;
const s1210 = <div title="title number 1210">text number 1210
   continued 1210</div>;
const s1211 = <div title="title number 1211">text number 1211
   continued 1211</div>;
const s1212 = <div title="title number 1212">text number 1212
   continued 1212</div>;
const s1213 = <div title="title number 1213">text number 1213
   continued 1213</div>;
const s1214 = <div title="title number 1214">text number 1214
   continued 1214</div>;
const s1215 = <div title="title number 1215">text number 1215
   continued 1215</div>;
const s1216 = <div title="title number 1216">text number 1216
   continued 1216</div>;
const s1217 = <div title="title number 1217">text number 1217
   continued 1217</div>;
const s1218 = <div title="title number 1218">text number 1218
   continued 1218</div>;
const s1219 = <div title="title number 1219">text number 1219
   continued 1219</div>;
const s1220 = <div title="title number 1220">text number 1220
   continued 1220</div>;
const s1221 = <div title="title number 1221">text number 1221
   continued 1221</div>;
const s1222 = <div title="title number 1222">text number 1222
   continued 1222</div>;
const s1223 = <div title="title number 1223">text number 1223
   continued 1223</div>;
const s1224 = <div title="title number 1224">text number 1224
   continued 1224</div>;
const s1225 = <div title="title number 1225">text number 1225
   continued 1225</div>;
const s1226 = <div title="title number 1226">text number 1226
   continued 1226</div>;
const s1227 = <div title="title number 1227">text number 1227
   continued 1227</div>;
const s1228 = <div title="title number 1228">text number 1228
   continued 1228</div>;
const s1229 = <div title="title number 1229">text number 1229
   continued 1229</div>;
const s1230 = <div title="title number 1230">text number 1230
   continued 1230</div>;
const s1231 = <div title="title number 1231">text number 1231
   continued 1231</div>;
const s1232 = <div title="title number 1232">text number 1232
   continued 1232</div>;
const s1233 = <div title="title number 1233">text number 1233
   continued 1233</div>;
const s1234 = <div title="title number 1234">text number 1234
   continued 1234</div>;
const s1235 = <div title="title number 1235">text number 1235
   continued 1235</div>;
const s1236 = <div title="title number 1236">text number 1236
   continued 1236</div>;
const s1237 = <div title="title number 1237">text number 1237
   continued 1237</div>;
const s1238 = <div title="title number 1238">text number 1238
   continued 1238</div>;
const s1239 = <div title="title number 1239">text number 1239
   continued 1239</div>;
const s1240 = <div title="title number 1240">text number 1240
   continued 1240</div>;
const s1241 = <div title="title number 1241">text number 1241
   continued 1241</div>;
const s1242 = <div title="title number 1242">text number 1242
   continued 1242</div>;
const s1243 = <div title="title number 1243">text number 1243
   continued 1243</div>;
const s1244 = <div title="title number 1244">text number 1244
   continued 1244</div>;
const s1245 = <div title="title number 1245">text number 1245
   continued 1245</div>;
const s1246 = <div title="title number 1246">text number 1246
   continued 1246</div>;
const s1247 = <div title="title number 1247">text number 1247
   continued 1247</div>;
const s1248 = <div title="title number 1248">text number 1248
   continued 1248</div>;
const s1249 = <div title="title number 1249">text number 1249
   continued 1249</div>;
const s1250 = <div title="title number 1250">text number 1250
   continued 1250</div>;
const s1251 = <div title="title number 1251">text number 1251
   continued 1251</div>;
const s1252 = <div title="title number 1252">text number 1252
   continued 1252</div>;
const s1253 = <div title="title number 1253">text number 1253
   continued 1253</div>;
const s1254 = <div title="title number 1254">text number 1254
   continued 1254</div>;
const s1255 = <div title="title number 1255">text number 1255
   continued 1255</div>;
const s1256 = <div title="title number 1256">text number 1256
   continued 1256</div>;
const s1257 = <div title="title number 1257">text number 1257
   continued 1257</div>;
const s1258 = <div title="title number 1258">text number 1258
   continued 1258</div>;
const s1259 = <div title="title number 1259">text number 1259
   continued 1259</div>;
const s1260 = <div title="title number 1260">text number 1260
   continued 1260</div>;
const s1261 = <div title="title number 1261">text number 1261
   continued 1261</div>;
const s1262 = <div title="title number 1262">text number 1262
   continued 1262</div>;
const s1263 = <div title="title number 1263">text number 1263
   continued 1263</div>;
const s1264 = <div title="title number 1264">text number 1264
   continued 1264</div>;
const s1265 = <div title="title number 1265">text number 1265
   continued 1265</div>;
const s1266 = <div title="title number 1266">text number 1266
   continued 1266</div>;
const s1267 = <div title="title number 1267">text number 1267
   continued 1267</div>;
const s1268 = <div title="title number 1268">text number 1268
   continued 1268</div>;
const s1269 = <div title="title number 1269">text number 1269
   continued 1269</div>;
const s1270 = <div title="title number 1270">text number 1270
   continued 1270</div>;
const s1271 = <div title="title number 1271">text number 1271
   continued 1271</div>;
const s1272 = <div title="title number 1272">text number 1272
   continued 1272</div>;
const s1273 = <div title="title number 1273">text number 1273
   continued 1273</div>;
const s1274 = <div title="title number 1274">text number 1274
   continued 1274</div>;
const s1275 = <div title="title number 1275">text number 1275
   continued 1275</div>;
const s1276 = <div title="title number 1276">text number 1276
   continued 1276</div>;
const s1277 = <div title="title number 1277">text number 1277
   continued 1277</div>;
const s1278 = <div title="title number 1278">text number 1278
   continued 1278</div>;
const s1279 = <div title="title number 1279">text number 1279
   continued 1279</div>;
const s1280 = <div title="title number 1280">text number 1280
   continued 1280</div>;
const s1281 = <div title="title number 1281">text number 1281
   continued 1281</div>;
const s1282 = <div title="title number 1282">text number 1282
   continued 1282</div>;
const s1283 = <div title="title number 1283">text number 1283
   continued 1283</div>;
const s1284 = <div title="title number 1284">text number 1284
   continued 1284</div>;
const s1285 = <div title="title number 1285">text number 1285
   continued 1285</div>;
const s1286 = <div title="title number 1286">text number 1286
   continued 1286</div>;
const s1287 = <div title="title number 1287">text number 1287
   continued 1287</div>;
const s1288 = <div title="title number 1288">text number 1288
   continued 1288</div>;
const s1289 = <div title="title number 1289">text number 1289
   continued 1289</div>;
const s1290 = <div title="title number 1290">text number 1290
   continued 1290</div>;
const s1291 = <div title="title number 1291">text number 1291
   continued 1291</div>;
const s1292 = <div title="title number 1292">text number 1292
   continued 1292</div>;
const s1293 = <div title="title number 1293">text number 1293
   continued 1293</div>;
const s1294 = <div title="title number 1294">text number 1294
   continued 1294</div>;
const s1295 = <div title="title number 1295">text number 1295
   continued 1295</div>;
const s1296 = <div title="title number 1296">text number 1296
   continued 1296</div>;
const s1297 = <div title="title number 1297">text number 1297
   continued 1297</div>;
const s1298 = <div title="title number 1298">text number 1298
   continued 1298</div>;
const s1299 = <div title="title number 1299">text number 1299
   continued 1299</div>;
const s1300 = <div title="title number 1300">text number 1300
   continued 1300</div>;
const s1301 = <div title="title number 1301">text number 1301
   continued 1301</div>;
const s1302 = <div title="title number 1302">text number 1302
   continued 1302</div>;
const s1303 = <div title="title number 1303">text number 1303
   continued 1303</div>;
const s1304 = <div title="title number 1304">text number 1304
   continued 1304</div>;
const s1305 = <div title="title number 1305">text number 1305
   continued 1305</div>;
const s1306 = <div title="title number 1306">text number 1306
   continued 1306</div>;
const s1307 = <div title="title number 1307">text number 1307
   continued 1307</div>;
const s1308 = <div title="title number 1308">text number 1308
   continued 1308</div>;
const s1309 = <div title="title number 1309">text number 1309
   continued 1309</div>;
const s1310 = <div title="title number 1310">text number 1310
   continued 1310</div>;
const s1311 = <div title="title number 1311">text number 1311
   continued 1311</div>;
const s1312 = <div title="title number 1312">text number 1312
   continued 1312</div>;
const s1313 = <div title="title number 1313">text number 1313
   continued 1313</div>;
const s1314 = <div title="title number 1314">text number 1314
   continued 1314</div>;
const s1315 = <div title="title number 1315">text number 1315
   continued 1315</div>;
const s1316 = <div title="title number 1316">text number 1316
   continued 1316</div>;
const s1317 = <div title="title number 1317">text number 1317
   continued 1317</div>;
const s1318 = <div title="title number 1318">text number 1318
   continued 1318</div>;
const s1319 = <div title="title number 1319">text number 1319
   continued 1319</div>;
const s1320 = <div title="title number 1320">text number 1320
   continued 1320</div>;
const s1321 = <div title="title number 1321">text number 1321
   continued 1321</div>;
const s1322 = <div title="title number 1322">text number 1322
   continued 1322</div>;
const s1323 = <div title="title number 1323">text number 1323
   continued 1323</div>;
const s1324 = <div title="title number 1324">text number 1324
   continued 1324</div>;
const s1325 = <div title="title number 1325">text number 1325
   continued 1325</div>;
const s1326 = <div title="title number 1326">text number 1326
   continued 1326</div>;
const s1327 = <div title="title number 1327">text number 1327
   continued 1327</div>;
const s1328 = <div title="title number 1328">text number 1328
   continued 1328</div>;
const s1329 = <div title="title number 1329">text number 1329
   continued 1329</div>;
const s1330 = <div title="title number 1330">text number 1330
   continued 1330</div>;
const s1331 = <div title="title number 1331">text number 1331
   continued 1331</div>;
const s1332 = <div title="title number 1332">text number 1332
   continued 1332</div>;
const s1333 = <div title="title number 1333">text number 1333
   continued 1333</div>;
const s1334 = <div title="title number 1334">text number 1334
   continued 1334</div>;
const s1335 = <div title="title number 1335">text number 1335
   continued 1335</div>;
const s1336 = <div title="title number 1336">text number 1336
   continued 1336</div>;
const s1337 = <div title="title number 1337">text number 1337
   continued 1337</div>;
const s1338 = <div title="title number 1338">text number 1338
   continued 1338</div>;
const s1339 = <div title="title number 1339">text number 1339
   continued 1339</div>;
const s1340 = <div title="title number 1340">text number 1340
   continued 1340</div>;
const s1341 = <div title="title number 1341">text number 1341
   continued 1341</div>;
const s1342 = <div title="title number 1342">text number 1342
   continued 1342</div>;
const s1343 = <div title="title number 1343">text number 1343
   continued 1343</div>;
const s1344 = <div title="title number 1344">text number 1344
   continued 1344</div>;
const s1345 = <div title="title number 1345">text number 1345
   continued 1345</div>;
const s1346 = <div title="title number 1346">text number 1346
   continued 1346</div>;
const s1347 = <div title="title number 1347">text number 1347
   continued 1347</div>;
const s1348 = <div title="title number 1348">text number 1348
   continued 1348</div>;
const s1349 = <div title="title number 1349">text number 1349
   continued 1349</div>;
const s1350 = <div title="title number 1350">text number 1350
   continued 1350</div>;
const s1351 = <div title="title number 1351">text number 1351
   continued 1351</div>;
const s1352 = <div title="title number 1352">text number 1352
   continued 1352</div>;
const s1353 = <div title="title number 1353">text number 1353
   continued 1353</div>;
const s1354 = <div title="title number 1354">text number 1354
   continued 1354</div>;
const s1355 = <div title="title number 1355">text number 1355
   continued 1355</div>;
const s1356 = <div title="title number 1356">text number 1356
   continued 1356</div>;
const s1357 = <div title="title number 1357">text number 1357
   continued 1357</div>;
const s1358 = <div title="title number 1358">text number 1358
   continued 1358</div>;
const s1359 = <div title="title number 1359">text number 1359
   continued 1359</div>;
const s1360 = <div title="title number 1360">text number 1360
   continued 1360</div>;
const s1361 = <div title="title number 1361">text number 1361
   continued 1361</div>;
const s1362 = <div title="title number 1362">text number 1362
   continued 1362</div>;
const s1363 = <div title="title number 1363">text number 1363
   continued 1363</div>;
const s1364 = <div title="title number 1364">text number 1364
   continued 1364</div>;
const s1365 = <div title="title number 1365">text number 1365
   continued 1365</div>;
const s1366 = <div title="title number 1366">text number 1366
   continued 1366</div>;
const s1367 = <div title="title number 1367">text number 1367
   continued 1367</div>;
const s1368 = <div title="title number 1368">text number 1368
   continued 1368</div>;
const s1369 = <div title="title number 1369">text number 1369
   continued 1369</div>;
const s1370 = <div title="title number 1370">text number 1370
   continued 1370</div>;
const s1371 = <div title="title number 1371">text number 1371
   continued 1371</div>;
const s1372 = <div title="title number 1372">text number 1372
   continued 1372</div>;
const s1373 = <div title="title number 1373">text number 1373
   continued 1373</div>;
const s1374 = <div title="title number 1374">text number 1374
   continued 1374</div>;
const s1375 = <div title="title number 1375">text number 1375
   continued 1375</div>;
const s1376 = <div title="title number 1376">text number 1376
   continued 1376</div>;
const s1377 = <div title="title number 1377">text number 1377
   continued 1377</div>;
const s1378 = <div title="title number 1378">text number 1378
   continued 1378</div>;
const s1379 = <div title="title number 1379">text number 1379
   continued 1379</div>;
const s1380 = <div title="title number 1380">text number 1380
   continued 1380</div>;
const s1381 = <div title="title number 1381">text number 1381
   continued 1381</div>;
const s1382 = <div title="title number 1382">text number 1382
   continued 1382</div>;
const s1383 = <div title="title number 1383">text number 1383
   continued 1383</div>;
const s1384 = <div title="title number 1384">text number 1384
   continued 1384</div>;
const s1385 = <div title="title number 1385">text number 1385
   continued 1385</div>;
const s1386 = <div title="title number 1386">text number 1386
   continued 1386</div>;
const s1387 = <div title="title number 1387">text number 1387
   continued 1387</div>;
const s1388 = <div title="title number 1388">text number 1388
   continued 1388</div>;
const s1389 = <div title="title number 1389">text number 1389
   continued 1389</div>;
const s1390 = <div title="title number 1390">text number 1390
   continued 1390</div>;
const s1391 = <div title="title number 1391">text number 1391
   continued 1391</div>;
const s1392 = <div title="title number 1392">text number 1392
   continued 1392</div>;
const s1393 = <div title="title number 1393">text number 1393
   continued 1393</div>;
const s1394 = <div title="title number 1394">text number 1394
   continued 1394</div>;
const s1395 = <div title="title number 1395">text number 1395
   continued 1395</div>;
const s1396 = <div title="title number 1396">text number 1396
   continued 1396</div>;
const s1397 = <div title="title number 1397">text number 1397
   continued 1397</div>;
const s1398 = <div title="title number 1398">text number 1398
   continued 1398</div>;
const s1399 = <div title="title number 1399">text number 1399
   continued 1399</div>;
const s1400 = <div title="title number 1400">text number 1400
   continued 1400</div>;
const s1401 = <div title="title number 1401">text number 1401
   continued 1401</div>;
const s1402 = <div title="title number 1402">text number 1402
   continued 1402</div>;
const s1403 = <div title="title number 1403">text number 1403
   continued 1403</div>;
const s1404 = <div title="title number 1404">text number 1404
   continued 1404</div>;
const s1405 = <div title="title number 1405">text number 1405
   continued 1405</div>;
const s1406 = <div title="title number 1406">text number 1406
   continued 1406</div>;
const s1407 = <div title="title number 1407">text number 1407
   continued 1407</div>;
const s1408 = <div title="title number 1408">text number 1408
   continued 1408</div>;
const s1409 = <div title="title number 1409">text number 1409
   continued 1409</div>;
const s1410 = <div title="title number 1410">text number 1410
   continued 1410</div>;
const s1411 = <div title="title number 1411">text number 1411
   continued 1411</div>;
const s1412 = <div title="title number 1412">text number 1412
   continued 1412</div>;
const s1413 = <div title="title number 1413">text number 1413
   continued 1413</div>;
const s1414 = <div title="title number 1414">text number 1414
   continued 1414</div>;
const s1415 = <div title="title number 1415">text number 1415
   continued 1415</div>;
const s1416 = <div title="title number 1416">text number 1416
   continued 1416</div>;
const s1417 = <div title="title number 1417">text number 1417
   continued 1417</div>;
const s1418 = <div title="title number 1418">text number 1418
   continued 1418</div>;
const s1419 = <div title="title number 1419">text number 1419
   continued 1419</div>;
const s1420 = <div title="title number 1420">text number 1420
   continued 1420</div>;
const s1421 = <div title="title number 1421">text number 1421
   continued 1421</div>;
const s1422 = <div title="title number 1422">text number 1422
   continued 1422</div>;
const s1423 = <div title="title number 1423">text number 1423
   continued 1423</div>;
const s1424 = <div title="title number 1424">text number 1424
   continued 1424</div>;
const s1425 = <div title="title number 1425">text number 1425
   continued 1425</div>;
const s1426 = <div title="title number 1426">text number 1426
   continued 1426</div>;
const s1427 = <div title="title number 1427">text number 1427
   continued 1427</div>;
const s1428 = <div title="title number 1428">text number 1428
   continued 1428</div>;
const s1429 = <div title="title number 1429">text number 1429
   continued 1429</div>;
const s1430 = <div title="title number 1430">text number 1430
   continued 1430</div>;
const s1431 = <div title="title number 1431">text number 1431
   continued 1431</div>;
const s1432 = <div title="title number 1432">text number 1432
   continued 1432</div>;
const s1433 = <div title="title number 1433">text number 1433
   continued 1433</div>;
const s1434 = <div title="title number 1434">text number 1434
   continued 1434</div>;
const s1435 = <div title="title number 1435">text number 1435
   continued 1435</div>;
const s1436 = <div title="title number 1436">text number 1436
   continued 1436</div>;
const s1437 = <div title="title number 1437">text number 1437
   continued 1437</div>;
const s1438 = <div title="title number 1438">text number 1438
   continued 1438</div>;
const s1439 = <div title="title number 1439">text number 1439
   continued 1439</div>;
const s1440 = <div title="title number 1440">text number 1440
   continued 1440</div>;
const s1441 = <div title="title number 1441">text number 1441
   continued 1441</div>;
const s1442 = <div title="title number 1442">text number 1442
   continued 1442</div>;
const s1443 = <div title="title number 1443">text number 1443
   continued 1443</div>;
const s1444 = <div title="title number 1444">text number 1444
   continued 1444</div>;
const s1445 = <div title="title number 1445">text number 1445
   continued 1445</div>;
const s1446 = <div title="title number 1446">text number 1446
   continued 1446</div>;
const s1447 = <div title="title number 1447">text number 1447
   continued 1447</div>;
const s1448 = <div title="title number 1448">text number 1448
   continued 1448</div>;
const s1449 = <div title="title number 1449">text number 1449
   continued 1449</div>;
const s1450 = <div title="title number 1450">text number 1450
   continued 1450</div>;
const s1451 = <div title="title number 1451">text number 1451
   continued 1451</div>;
const s1452 = <div title="title number 1452">text number 1452
   continued 1452</div>;
const s1453 = <div title="title number 1453">text number 1453
   continued 1453</div>;
const s1454 = <div title="title number 1454">text number 1454
   continued 1454</div>;
const s1455 = <div title="title number 1455">text number 1455
   continued 1455</div>;
const s1456 = <div title="title number 1456">text number 1456
   continued 1456</div>;
const s1457 = <div title="title number 1457">text number 1457
   continued 1457</div>;
const s1458 = <div title="title number 1458">text number 1458
   continued 1458</div>;
const s1459 = <div title="title number 1459">text number 1459
   continued 1459</div>;
const s1460 = <div title="title number 1460">text number 1460
   continued 1460</div>;
const s1461 = <div title="title number 1461">text number 1461
   continued 1461</div>;
const s1462 = <div title="title number 1462">text number 1462
   continued 1462</div>;
const s1463 = <div title="title number 1463">text number 1463
   continued 1463</div>;
const s1464 = <div title="title number 1464">text number 1464
   continued 1464</div>;
const s1465 = <div title="title number 1465">text number 1465
   continued 1465</div>;
const s1466 = <div title="title number 1466">text number 1466
   continued 1466</div>;
const s1467 = <div title="title number 1467">text number 1467
   continued 1467</div>;
const s1468 = <div title="title number 1468">text number 1468
   continued 1468</div>;
const s1469 = <div title="title number 1469">text number 1469
   continued 1469</div>;
const s1470 = <div title="title number 1470">text number 1470
   continued 1470</div>;
const s1471 = <div title="title number 1471">text number 1471
   continued 1471</div>;
const s1472 = <div title="title number 1472">text number 1472
   continued 1472</div>;
const s1473 = <div title="title number 1473">text number 1473
   continued 1473</div>;
const s1474 = <div title="title number 1474">text number 1474
   continued 1474</div>;
const s1475 = <div title="title number 1475">text number 1475
   continued 1475</div>;
const s1476 = <div title="title number 1476">text number 1476
   continued 1476</div>;
const s1477 = <div title="title number 1477">text number 1477
   continued 1477</div>;
const s1478 = <div title="title number 1478">text number 1478
   continued 1478</div>;
const s1479 = <div title="title number 1479">text number 1479
   continued 1479</div>;
const s1480 = <div title="title number 1480">text number 1480
   continued 1480</div>;
const s1481 = <div title="title number 1481">text number 1481
   continued 1481</div>;
const s1482 = <div title="title number 1482">text number 1482
   continued 1482</div>;
const s1483 = <div title="title number 1483">text number 1483
   continued 1483</div>;
const s1484 = <div title="title number 1484">text number 1484
   continued 1484</div>;
const s1485 = <div title="title number 1485">text number 1485
   continued 1485</div>;
const s1486 = <div title="title number 1486">text number 1486
   continued 1486</div>;
const s1487 = <div title="title number 1487">text number 1487
   continued 1487</div>;
const s1488 = <div title="title number 1488">text number 1488
   continued 1488</div>;
const s1489 = <div title="title number 1489">text number 1489
   continued 1489</div>;
const s1490 = <div title="title number 1490">text number 1490
   continued 1490</div>;
const s1491 = <div title="title number 1491">text number 1491
   continued 1491</div>;
const s1492 = <div title="title number 1492">text number 1492
   continued 1492</div>;
const s1493 = <div title="title number 1493">text number 1493
   continued 1493</div>;
const s1494 = <div title="title number 1494">text number 1494
   continued 1494</div>;
const s1495 = <div title="title number 1495">text number 1495
   continued 1495</div>;
const s1496 = <div title="title number 1496">text number 1496
   continued 1496</div>;
const s1497 = <div title="title number 1497">text number 1497
   continued 1497</div>;
const s1498 = <div title="title number 1498">text number 1498
   continued 1498</div>;
const s1499 = <div title="title number 1499">text number 1499
   continued 1499</div>;
const s1500 = <div title="title number 1500">text number 1500
   continued 1500</div>;
const s1501 = <div title="title number 1501">text number 1501
   continued 1501</div>;
const s1502 = <div title="title number 1502">text number 1502
   continued 1502</div>;
const s1503 = <div title="title number 1503">text number 1503
   continued 1503</div>;
const s1504 = <div title="title number 1504">text number 1504
   continued 1504</div>;
const s1505 = <div title="title number 1505">text number 1505
   continued 1505</div>;
const s1506 = <div title="title number 1506">text number 1506
   continued 1506</div>;
const s1507 = <div title="title number 1507">text number 1507
   continued 1507</div>;
const s1508 = <div title="title number 1508">text number 1508
   continued 1508</div>;
const s1509 = <div title="title number 1509">text number 1509
   continued 1509</div>;
const s1510 = <div title="title number 1510">text number 1510
   continued 1510</div>;
const s1511 = <div title="title number 1511">text number 1511
   continued 1511</div>;
const s1512 = <div title="title number 1512">text number 1512
   continued 1512</div>;
const s1513 = <div title="title number 1513">text number 1513
   continued 1513</div>;
const s1514 = <div title="title number 1514">text number 1514
   continued 1514</div>;
const s1515 = <div title="title number 1515">text number 1515
   continued 1515</div>;
const s1516 = <div title="title number 1516">text number 1516
   continued 1516</div>;
const s1517 = <div title="title number 1517">text number 1517
   continued 1517</div>;
const s1518 = <div title="title number 1518">text number 1518
   continued 1518</div>;
const s1519 = <div title="title number 1519">text number 1519
   continued 1519</div>;
const s1520 = <div title="title number 1520">text number 1520
   continued 1520</div>;
const s1521 = <div title="title number 1521">text number 1521
   continued 1521</div>;
const s1522 = <div title="title number 1522">text number 1522
   continued 1522</div>;
const s1523 = <div title="title number 1523">text number 1523
   continued 1523</div>;
const s1524 = <div title="title number 1524">text number 1524
   continued 1524</div>;
const s1525 = <div title="title number 1525">text number 1525
   continued 1525</div>;
const s1526 = <div title="title number 1526">text number 1526
   continued 1526</div>;
const s1527 = <div title="title number 1527">text number 1527
   continued 1527</div>;
const s1528 = <div title="title number 1528">text number 1528
   continued 1528</div>;
const s1529 = <div title="title number 1529">text number 1529
   continued 1529</div>;
const s1530 = <div title="title number 1530">text number 1530
   continued 1530</div>;
const s1531 = <div title="title number 1531">text number 1531
   continued 1531</div>;
const s1532 = <div title="title number 1532">text number 1532
   continued 1532</div>;
const s1533 = <div title="title number 1533">text number 1533
   continued 1533</div>;
const s1534 = <div title="title number 1534">text number 1534
   continued 1534</div>;
const s1535 = <div title="title number 1535">text number 1535
   continued 1535</div>;
const s1536 = <div title="title number 1536">text number 1536
   continued 1536</div>;
const s1537 = <div title="title number 1537">text number 1537
   continued 1537</div>;
const s1538 = <div title="title number 1538">text number 1538
   continued 1538</div>;
const s1539 = <div title="title number 1539">text number 1539
   continued 1539</div>;
const s1540 = <div title="title number 1540">text number 1540
   continued 1540</div>;
const s1541 = <div title="title number 1541">text number 1541
   continued 1541</div>;
const s1542 = <div title="title number 1542">text number 1542
   continued 1542</div>;
const s1543 = <div title="title number 1543">text number 1543
   continued 1543</div>;
const s1544 = <div title="title number 1544">text number 1544
   continued 1544</div>;
const s1545 = <div title="title number 1545">text number 1545
   continued 1545</div>;
const s1546 = <div title="title number 1546">text number 1546
   continued 1546</div>;
const s1547 = <div title="title number 1547">text number 1547
   continued 1547</div>;
const s1548 = <div title="title number 1548">text number 1548
   continued 1548</div>;
const s1549 = <div title="title number 1549">text number 1549
   continued 1549</div>;
const s1550 = <div title="title number 1550">text number 1550
   continued 1550</div>;
const s1551 = <div title="title number 1551">text number 1551
   continued 1551</div>;
const s1552 = <div title="title number 1552">text number 1552
   continued 1552</div>;
const s1553 = <div title="title number 1553">text number 1553
   continued 1553</div>;
const s1554 = <div title="title number 1554">text number 1554
   continued 1554</div>;
const s1555 = <div title="title number 1555">text number 1555
   continued 1555</div>;
const s1556 = <div title="title number 1556">text number 1556
   continued 1556</div>;
const s1557 = <div title="title number 1557">text number 1557
   continued 1557</div>;
const s1558 = <div title="title number 1558">text number 1558
   continued 1558</div>;
const s1559 = <div title="title number 1559">text number 1559
   continued 1559</div>;
const s1560 = <div title="title number 1560">text number 1560
   continued 1560</div>;
const s1561 = <div title="title number 1561">text number 1561
   continued 1561</div>;
const s1562 = <div title="title number 1562">text number 1562
   continued 1562</div>;
const s1563 = <div title="title number 1563">text number 1563
   continued 1563</div>;
const s1564 = <div title="title number 1564">text number 1564
   continued 1564</div>;
const s1565 = <div title="title number 1565">text number 1565
   continued 1565</div>;
const s1566 = <div title="title number 1566">text number 1566
   continued 1566</div>;
const s1567 = <div title="title number 1567">text number 1567
   continued 1567</div>;
const s1568 = <div title="title number 1568">text number 1568
   continued 1568</div>;
const s1569 = <div title="title number 1569">text number 1569
   continued 1569</div>;
const s1570 = <div title="title number 1570">text number 1570
   continued 1570</div>;
const s1571 = <div title="title number 1571">text number 1571
   continued 1571</div>;
const s1572 = <div title="title number 1572">text number 1572
   continued 1572</div>;
const s1573 = <div title="title number 1573">text number 1573
   continued 1573</div>;
const s1574 = <div title="title number 1574">text number 1574
   continued 1574</div>;
const s1575 = <div title="title number 1575">text number 1575
   continued 1575</div>;
const s1576 = <div title="title number 1576">text number 1576
   continued 1576</div>;
const s1577 = <div title="title number 1577">text number 1577
   continued 1577</div>;
const s1578 = <div title="title number 1578">text number 1578
   continued 1578</div>;
const s1579 = <div title="title number 1579">text number 1579
   continued 1579</div>;
const s1580 = <div title="title number 1580">text number 1580
   continued 1580</div>;
const s1581 = <div title="title number 1581">text number 1581
   continued 1581</div>;
const s1582 = <div title="title number 1582">text number 1582
   continued 1582</div>;
const s1583 = <div title="title number 1583">text number 1583
   continued 1583</div>;
const s1584 = <div title="title number 1584">text number 1584
   continued 1584</div>;
const s1585 = <div title="title number 1585">text number 1585
   continued 1585</div>;
const s1586 = <div title="title number 1586">text number 1586
   continued 1586</div>;
const s1587 = <div title="title number 1587">text number 1587
   continued 1587</div>;
const s1588 = <div title="title number 1588">text number 1588
   continued 1588</div>;
const s1589 = <div title="title number 1589">text number 1589
   continued 1589</div>;
const s1590 = <div title="title number 1590">text number 1590
   continued 1590</div>;
const s1591 = <div title="title number 1591">text number 1591
   continued 1591</div>;
const s1592 = <div title="title number 1592">text number 1592
   continued 1592</div>;
const s1593 = <div title="title number 1593">text number 1593
   continued 1593</div>;
const s1594 = <div title="title number 1594">text number 1594
   continued 1594</div>;
const s1595 = <div title="title number 1595">text number 1595
   continued 1595</div>;
const s1596 = <div title="title number 1596">text number 1596
   continued 1596</div>;
const s1597 = <div title="title number 1597">text number 1597
   continued 1597</div>;
const s1598 = <div title="title number 1598">text number 1598
   continued 1598</div>;
const s1599 = <div title="title number 1599">text number 1599
   continued 1599</div>;
const s1600 = <div title="title number 1600">text number 1600
   continued 1600</div>;
const s1601 = <div title="title number 1601">text number 1601
   continued 1601</div>;
const s1602 = <div title="title number 1602">text number 1602
   continued 1602</div>;
const s1603 = <div title="title number 1603">text number 1603
   continued 1603</div>;
const s1604 = <div title="title number 1604">text number 1604
   continued 1604</div>;
const s1605 = <div title="title number 1605">text number 1605
   continued 1605</div>;
const s1606 = <div title="title number 1606">text number 1606
   continued 1606</div>;
const s1607 = <div title="title number 1607">text number 1607
   continued 1607</div>;
const s1608 = <div title="title number 1608">text number 1608
   continued 1608</div>;
const s1609 = <div title="title number 1609">text number 1609
   continued 1609</div>;
const s1610 = <div title="title number 1610">text number 1610
   continued 1610</div>;
const s1611 = <div title="title number 1611">text number 1611
   continued 1611</div>;
const s1612 = <div title="title number 1612">text number 1612
   continued 1612</div>;
const s1613 = <div title="title number 1613">text number 1613
   continued 1613</div>;
const s1614 = <div title="title number 1614">text number 1614
   continued 1614</div>;
const s1615 = <div title="title number 1615">text number 1615
   continued 1615</div>;
const s1616 = <div title="title number 1616">text number 1616
   continued 1616</div>;
const s1617 = <div title="title number 1617">text number 1617
   continued 1617</div>;
const s1618 = <div title="title number 1618">text number 1618
   continued 1618</div>;
const s1619 = <div title="title number 1619">text number 1619
   continued 1619</div>;
const s1620 = <div title="title number 1620">text number 1620
   continued 1620</div>;
const s1621 = <div title="title number 1621">text number 1621
   continued 1621</div>;
const s1622 = <div title="title number 1622">text number 1622
   continued 1622</div>;
const s1623 = <div title="title number 1623">text number 1623
   continued 1623</div>;
const s1624 = <div title="title number 1624">text number 1624
   continued 1624</div>;
const s1625 = <div title="title number 1625">text number 1625
   continued 1625</div>;
const s1626 = <div title="title number 1626">text number 1626
   continued 1626</div>;
const s1627 = <div title="title number 1627">text number 1627
   continued 1627</div>;
const s1628 = <div title="title number 1628">text number 1628
   continued 1628</div>;
const s1629 = <div title="title number 1629">text number 1629
   continued 1629</div>;
const s1630 = <div title="title number 1630">text number 1630
   continued 1630</div>;
const s1631 = <div title="title number 1631">text number 1631
   continued 1631</div>;
const s1632 = <div title="title number 1632">text number 1632
   continued 1632</div>;
const s1633 = <div title="title number 1633">text number 1633
   continued 1633</div>;
const s1634 = <div title="title number 1634">text number 1634
   continued 1634</div>;
const s1635 = <div title="title number 1635">text number 1635
   continued 1635</div>;
const s1636 = <div title="title number 1636">text number 1636
   continued 1636</div>;
const s1637 = <div title="title number 1637">text number 1637
   continued 1637</div>;
const s1638 = <div title="title number 1638">text number 1638
   continued 1638</div>;
const s1639 = <div title="title number 1639">text number 1639
   continued 1639</div>;
const s1640 = <div title="title number 1640">text number 1640
   continued 1640</div>;
const s1641 = <div title="title number 1641">text number 1641
   continued 1641</div>;
const s1642 = <div title="title number 1642">text number 1642
   continued 1642</div>;
const s1643 = <div title="title number 1643">text number 1643
   continued 1643</div>;
const s1644 = <div title="title number 1644">text number 1644
   continued 1644</div>;
const s1645 = <div title="title number 1645">text number 1645
   continued 1645</div>;
const s1646 = <div title="title number 1646">text number 1646
   continued 1646</div>;
const s1647 = <div title="title number 1647">text number 1647
   continued 1647</div>;
const s1648 = <div title="title number 1648">text number 1648
   continued 1648</div>;
const s1649 = <div title="title number 1649">text number 1649
   continued 1649</div>;
const s1650 = <div title="title number 1650">text number 1650
   continued 1650</div>;
const s1651 = <div title="title number 1651">text number 1651
   continued 1651</div>;
const s1652 = <div title="title number 1652">text number 1652
   continued 1652</div>;
const s1653 = <div title="title number 1653">text number 1653
   continued 1653</div>;
const s1654 = <div title="title number 1654">text number 1654
   continued 1654</div>;
const s1655 = <div title="title number 1655">text number 1655
   continued 1655</div>;
const s1656 = <div title="title number 1656">text number 1656
   continued 1656</div>;
const s1657 = <div title="title number 1657">text number 1657
   continued 1657</div>;
const s1658 = <div title="title number 1658">text number 1658
   continued 1658</div>;
const s1659 = <div title="title number 1659">text number 1659
   continued 1659</div>;
const s1660 = <div title="title number 1660">text number 1660
   continued 1660</div>;
const s1661 = <div title="title number 1661">text number 1661
   continued 1661</div>;
const s1662 = <div title="title number 1662">text number 1662
   continued 1662</div>;
const s1663 = <div title="title number 1663">text number 1663
   continued 1663</div>;
const s1664 = <div title="title number 1664">text number 1664
   continued 1664</div>;
const s1665 = <div title="title number 1665">text number 1665
   continued 1665</div>;
const s1666 = <div title="title number 1666">text number 1666
   continued 1666</div>;
const s1667 = <div title="title number 1667">text number 1667
   continued 1667</div>;
const s1668 = <div title="title number 1668">text number 1668
   continued 1668</div>;
const s1669 = <div title="title number 1669">text number 1669
   continued 1669</div>;
const s1670 = <div title="title number 1670">text number 1670
   continued 1670</div>;
const s1671 = <div title="title number 1671">text number 1671
   continued 1671</div>;
const s1672 = <div title="title number 1672">text number 1672
   continued 1672</div>;
const s1673 = <div title="title number 1673">text number 1673
   continued 1673</div>;
const s1674 = <div title="title number 1674">text number 1674
   continued 1674</div>;
const s1675 = <div title="title number 1675">text number 1675
   continued 1675</div>;
const s1676 = <div title="title number 1676">text number 1676
   continued 1676</div>;
const s1677 = <div title="title number 1677">text number 1677
   continued 1677</div>;
const s1678 = <div title="title number 1678">text number 1678
   continued 1678</div>;
const s1679 = <div title="title number 1679">text number 1679
   continued 1679</div>;
const s1680 = <div title="title number 1680">text number 1680
   continued 1680</div>;
const s1681 = <div title="title number 1681">text number 1681
   continued 1681</div>;
const s1682 = <div title="title number 1682">text number 1682
   continued 1682</div>;
const s1683 = <div title="title number 1683">text number 1683
   continued 1683</div>;
const s1684 = <div title="title number 1684">text number 1684
   continued 1684</div>;
const s1685 = <div title="title number 1685">text number 1685
   continued 1685</div>;
const s1686 = <div title="title number 1686">text number 1686
   continued 1686</div>;
const s1687 = <div title="title number 1687">text number 1687
   continued 1687</div>;
const s1688 = <div title="title number 1688">text number 1688
   continued 1688</div>;
const s1689 = <div title="title number 1689">text number 1689
   continued 1689</div>;
const s1690 = <div title="title number 1690">text number 1690
   continued 1690</div>;
const s1691 = <div title="title number 1691">text number 1691
   continued 1691</div>;
const s1692 = <div title="title number 1692">text number 1692
   continued 1692</div>;
const s1693 = <div title="title number 1693">text number 1693
   continued 1693</div>;
const s1694 = <div title="title number 1694">text number 1694
   continued 1694</div>;
const s1695 = <div title="title number 1695">text number 1695
   continued 1695</div>;
const s1696 = <div title="title number 1696">text number 1696
   continued 1696</div>;
const s1697 = <div title="title number 1697">text number 1697
   continued 1697</div>;
const s1698 = <div title="title number 1698">text number 1698
   continued 1698</div>;
const s1699 = <div title="title number 1699">text number 1699
   continued 1699</div>;
const s1700 = <div title="title number 1700">text number 1700
   continued 1700</div>;
const s1701 = <div title="title number 1701">text number 1701
   continued 1701</div>;
const s1702 = <div title="title number 1702">text number 1702
   continued 1702</div>;
const s1703 = <div title="title number 1703">text number 1703
   continued 1703</div>;
const s1704 = <div title="title number 1704">text number 1704
   continued 1704</div>;
const s1705 = <div title="title number 1705">text number 1705
   continued 1705</div>;
const s1706 = <div title="title number 1706">text number 1706
   continued 1706</div>;
const s1707 = <div title="title number 1707">text number 1707
   continued 1707</div>;
const s1708 = <div title="title number 1708">text number 1708
   continued 1708</div>;
const s1709 = <div title="title number 1709">text number 1709
   continued 1709</div>;
const s1710 = <div title="title number 1710">text number 1710
   continued 1710</div>;
const s1711 = <div title="title number 1711">text number 1711
   continued 1711</div>;
const s1712 = <div title="title number 1712">text number 1712
   continued 1712</div>;
const s1713 = <div title="title number 1713">text number 1713
   continued 1713</div>;
const s1714 = <div title="title number 1714">text number 1714
   continued 1714</div>;
const s1715 = <div title="title number 1715">text number 1715
   continued 1715</div>;
const s1716 = <div title="title number 1716">text number 1716
   continued 1716</div>;
const s1717 = <div title="title number 1717">text number 1717
   continued 1717</div>;
const s1718 = <div title="title number 1718">text number 1718
   continued 1718</div>;
const s1719 = <div title="title number 1719">text number 1719
   continued 1719</div>;
const s1720 = <div title="title number 1720">text number 1720
   continued 1720</div>;
const s1721 = <div title="title number 1721">text number 1721
   continued 1721</div>;
const s1722 = <div title="title number 1722">text number 1722
   continued 1722</div>;
const s1723 = <div title="title number 1723">text number 1723
   continued 1723</div>;
const s1724 = <div title="title number 1724">text number 1724
   continued 1724</div>;
const s1725 = <div title="title number 1725">text number 1725
   continued 1725</div>;
const s1726 = <div title="title number 1726">text number 1726
   continued 1726</div>;
const s1727 = <div title="title number 1727">text number 1727
   continued 1727</div>;
const s1728 = <div title="title number 1728">text number 1728
   continued 1728</div>;
const s1729 = <div title="title number 1729">text number 1729
   continued 1729</div>;
const s1730 = <div title="title number 1730">text number 1730
   continued 1730</div>;
const s1731 = <div title="title number 1731">text number 1731
   continued 1731</div>;
const s1732 = <div title="title number 1732">text number 1732
   continued 1732</div>;
const s1733 = <div title="title number 1733">text number 1733
   continued 1733</div>;
const s1734 = <div title="title number 1734">text number 1734
   continued 1734</div>;
const s1735 = <div title="title number 1735">text number 1735
   continued 1735</div>;
const s1736 = <div title="title number 1736">text number 1736
   continued 1736</div>;
const s1737 = <div title="title number 1737">text number 1737
   continued 1737</div>;
const s1738 = <div title="title number 1738">text number 1738
   continued 1738</div>;
const s1739 = <div title="title number 1739">text number 1739
   continued 1739</div>;
const s1740 = <div title="title number 1740">text number 1740
   continued 1740</div>;
const s1741 = <div title="title number 1741">text number 1741
   continued 1741</div>;
const s1742 = <div title="title number 1742">text number 1742
   continued 1742</div>;
const s1743 = <div title="title number 1743">text number 1743
   continued 1743</div>;
const s1744 = <div title="title number 1744">text number 1744
   continued 1744</div>;
const s1745 = <div title="title number 1745">text number 1745
   continued 1745</div>;
const s1746 = <div title="title number 1746">text number 1746
   continued 1746</div>;
const s1747 = <div title="title number 1747">text number 1747
   continued 1747</div>;
const s1748 = <div title="title number 1748">text number 1748
   continued 1748</div>;
const s1749 = <div title="title number 1749">text number 1749
   continued 1749</div>;
const s1750 = <div title="title number 1750">text number 1750
   continued 1750</div>;
const s1751 = <div title="title number 1751">text number 1751
   continued 1751</div>;
const s1752 = <div title="title number 1752">text number 1752
   continued 1752</div>;
const s1753 = <div title="title number 1753">text number 1753
   continued 1753</div>;
const s1754 = <div title="title number 1754">text number 1754
   continued 1754</div>;
const s1755 = <div title="title number 1755">text number 1755
   continued 1755</div>;
const s1756 = <div title="title number 1756">text number 1756
   continued 1756</div>;
const s1757 = <div title="title number 1757">text number 1757
   continued 1757</div>;
const s1758 = <div title="title number 1758">text number 1758
   continued 1758</div>;
const s1759 = <div title="title number 1759">text number 1759
   continued 1759</div>;
const s1760 = <div title="title number 1760">text number 1760
   continued 1760</div>;
const s1761 = <div title="title number 1761">text number 1761
   continued 1761</div>;
const s1762 = <div title="title number 1762">text number 1762
   continued 1762</div>;
const s1763 = <div title="title number 1763">text number 1763
   continued 1763</div>;
const s1764 = <div title="title number 1764">text number 1764
   continued 1764</div>;
const s1765 = <div title="title number 1765">text number 1765
   continued 1765</div>;
const s1766 = <div title="title number 1766">text number 1766
   continued 1766</div>;
const s1767 = <div title="title number 1767">text number 1767
   continued 1767</div>;
const s1768 = <div title="title number 1768">text number 1768
   continued 1768</div>;
const s1769 = <div title="title number 1769">text number 1769
   continued 1769</div>;
const s1770 = <div title="title number 1770">text number 1770
   continued 1770</div>;
const s1771 = <div title="title number 1771">text number 1771
   continued 1771</div>;
const s1772 = <div title="title number 1772">text number 1772
   continued 1772</div>;
const s1773 = <div title="title number 1773">text number 1773
   continued 1773</div>;
const s1774 = <div title="title number 1774">text number 1774
   continued 1774</div>;
const s1775 = <div title="title number 1775">text number 1775
   continued 1775</div>;
const s1776 = <div title="title number 1776">text number 1776
   continued 1776</div>;
const s1777 = <div title="title number 1777">text number 1777
   continued 1777</div>;
const s1778 = <div title="title number 1778">text number 1778
   continued 1778</div>;
const s1779 = <div title="title number 1779">text number 1779
   continued 1779</div>;
const s1780 = <div title="title number 1780">text number 1780
   continued 1780</div>;
const s1781 = <div title="title number 1781">text number 1781
   continued 1781</div>;
const s1782 = <div title="title number 1782">text number 1782
   continued 1782</div>;
const s1783 = <div title="title number 1783">text number 1783
   continued 1783</div>;
const s1784 = <div title="title number 1784">text number 1784
   continued 1784</div>;
const s1785 = <div title="title number 1785">text number 1785
   continued 1785</div>;
const s1786 = <div title="title number 1786">text number 1786
   continued 1786</div>;
const s1787 = <div title="title number 1787">text number 1787
   continued 1787</div>;
const s1788 = <div title="title number 1788">text number 1788
   continued 1788</div>;
const s1789 = <div title="title number 1789">text number 1789
   continued 1789</div>;
const s1790 = <div title="title number 1790">text number 1790
   continued 1790</div>;
const s1791 = <div title="title number 1791">text number 1791
   continued 1791</div>;
const s1792 = <div title="title number 1792">text number 1792
   continued 1792</div>;
const s1793 = <div title="title number 1793">text number 1793
   continued 1793</div>;
const s1794 = <div title="title number 1794">text number 1794
   continued 1794</div>;
const s1795 = <div title="title number 1795">text number 1795
   continued 1795</div>;
const s1796 = <div title="title number 1796">text number 1796
   continued 1796</div>;
const s1797 = <div title="title number 1797">text number 1797
   continued 1797</div>;
const s1798 = <div title="title number 1798">text number 1798
   continued 1798</div>;
const s1799 = <div title="title number 1799">text number 1799
   continued 1799</div>;
const s1800 = <div title="title number 1800">text number 1800
   continued 1800</div>;
const s1801 = <div title="title number 1801">text number 1801
   continued 1801</div>;
const s1802 = <div title="title number 1802">text number 1802
   continued 1802</div>;
const s1803 = <div title="title number 1803">text number 1803
   continued 1803</div>;
const s1804 = <div title="title number 1804">text number 1804
   continued 1804</div>;
const s1805 = <div title="title number 1805">text number 1805
   continued 1805</div>;
const s1806 = <div title="title number 1806">text number 1806
   continued 1806</div>;
const s1807 = <div title="title number 1807">text number 1807
   continued 1807</div>;
const s1808 = <div title="title number 1808">text number 1808
   continued 1808</div>;
const s1809 = <div title="title number 1809">text number 1809
   continued 1809</div>;
const s1810 = <div title="title number 1810">text number 1810
   continued 1810</div>;
const s1811 = <div title="title number 1811">text number 1811
   continued 1811</div>;
const s1812 = <div title="title number 1812">text number 1812
   continued 1812</div>;
const s1813 = <div title="title number 1813">text number 1813
   continued 1813</div>;
const s1814 = <div title="title number 1814">text number 1814
   continued 1814</div>;
const s1815 = <div title="title number 1815">text number 1815
   continued 1815</div>;
const s1816 = <div title="title number 1816">text number 1816
   continued 1816</div>;
const s1817 = <div title="title number 1817">text number 1817
   continued 1817</div>;
const s1818 = <div title="title number 1818">text number 1818
   continued 1818</div>;
const s1819 = <div title="title number 1819">text number 1819
   continued 1819</div>;
const s1820 = <div title="title number 1820">text number 1820
   continued 1820</div>;
const s1821 = <div title="title number 1821">text number 1821
   continued 1821</div>;
const s1822 = <div title="title number 1822">text number 1822
   continued 1822</div>;
const s1823 = <div title="title number 1823">text number 1823
   continued 1823</div>;
const s1824 = <div title="title number 1824">text number 1824
   continued 1824</div>;
const s1825 = <div title="title number 1825">text number 1825
   continued 1825</div>;
const s1826 = <div title="title number 1826">text number 1826
   continued 1826</div>;
const s1827 = <div title="title number 1827">text number 1827
   continued 1827</div>;
const s1828 = <div title="title number 1828">text number 1828
   continued 1828</div>;
const s1829 = <div title="title number 1829">text number 1829
   continued 1829</div>;
const s1830 = <div title="title number 1830">text number 1830
   continued 1830</div>;
const s1831 = <div title="title number 1831">text number 1831
   continued 1831</div>;
const s1832 = <div title="title number 1832">text number 1832
   continued 1832</div>;
const s1833 = <div title="title number 1833">text number 1833
   continued 1833</div>;
const s1834 = <div title="title number 1834">text number 1834
   continued 1834</div>;
const s1835 = <div title="title number 1835">text number 1835
   continued 1835</div>;
const s1836 = <div title="title number 1836">text number 1836
   continued 1836</div>;
const s1837 = <div title="title number 1837">text number 1837
   continued 1837</div>;
const s1838 = <div title="title number 1838">text number 1838
   continued 1838</div>;
const s1839 = <div title="title number 1839">text number 1839
   continued 1839</div>;
const s1840 = <div title="title number 1840">text number 1840
   continued 1840</div>;
const s1841 = <div title="title number 1841">text number 1841
   continued 1841</div>;
const s1842 = <div title="title number 1842">text number 1842
   continued 1842</div>;
const s1843 = <div title="title number 1843">text number 1843
   continued 1843</div>;
const s1844 = <div title="title number 1844">text number 1844
   continued 1844</div>;
const s1845 = <div title="title number 1845">text number 1845
   continued 1845</div>;
const s1846 = <div title="title number 1846">text number 1846
   continued 1846</div>;
const s1847 = <div title="title number 1847">text number 1847
   continued 1847</div>;
const s1848 = <div title="title number 1848">text number 1848
   continued 1848</div>;
const s1849 = <div title="title number 1849">text number 1849
   continued 1849</div>;
const s1850 = <div title="title number 1850">text number 1850
   continued 1850</div>;
const s1851 = <div title="title number 1851">text number 1851
   continued 1851</div>;
const s1852 = <div title="title number 1852">text number 1852
   continued 1852</div>;
const s1853 = <div title="title number 1853">text number 1853
   continued 1853</div>;
const s1854 = <div title="title number 1854">text number 1854
   continued 1854</div>;
const s1855 = <div title="title number 1855">text number 1855
   continued 1855</div>;
const s1856 = <div title="title number 1856">text number 1856
   continued 1856</div>;
const s1857 = <div title="title number 1857">text number 1857
   continued 1857</div>;
const s1858 = <div title="title number 1858">text number 1858
   continued 1858</div>;
const s1859 = <div title="title number 1859">text number 1859
   continued 1859</div>;
const s1860 = <div title="title number 1860">text number 1860
   continued 1860</div>;
const s1861 = <div title="title number 1861">text number 1861
   continued 1861</div>;
const s1862 = <div title="title number 1862">text number 1862
   continued 1862</div>;
const s1863 = <div title="title number 1863">text number 1863
   continued 1863</div>;
const s1864 = <div title="title number 1864">text number 1864
   continued 1864</div>;
const s1865 = <div title="title number 1865">text number 1865
   continued 1865</div>;
const s1866 = <div title="title number 1866">text number 1866
   continued 1866</div>;
const s1867 = <div title="title number 1867">text number 1867
   continued 1867</div>;
const s1868 = <div title="title number 1868">text number 1868
   continued 1868</div>;
const s1869 = <div title="title number 1869">text number 1869
   continued 1869</div>;
const s1870 = <div title="title number 1870">text number 1870
   continued 1870</div>;
const s1871 = <div title="title number 1871">text number 1871
   continued 1871</div>;
const s1872 = <div title="title number 1872">text number 1872
   continued 1872</div>;
const s1873 = <div title="title number 1873">text number 1873
   continued 1873</div>;
const s1874 = <div title="title number 1874">text number 1874
   continued 1874</div>;
const s1875 = <div title="title number 1875">text number 1875
   continued 1875</div>;
const s1876 = <div title="title number 1876">text number 1876
   continued 1876</div>;
const s1877 = <div title="title number 1877">text number 1877
   continued 1877</div>;
const s1878 = <div title="title number 1878">text number 1878
   continued 1878</div>;
const s1879 = <div title="title number 1879">text number 1879
   continued 1879</div>;
const s1880 = <div title="title number 1880">text number 1880
   continued 1880</div>;
const s1881 = <div title="title number 1881">text number 1881
   continued 1881</div>;
const s1882 = <div title="title number 1882">text number 1882
   continued 1882</div>;
const s1883 = <div title="title number 1883">text number 1883
   continued 1883</div>;
const s1884 = <div title="title number 1884">text number 1884
   continued 1884</div>;
const s1885 = <div title="title number 1885">text number 1885
   continued 1885</div>;
const s1886 = <div title="title number 1886">text number 1886
   continued 1886</div>;
const s1887 = <div title="title number 1887">text number 1887
   continued 1887</div>;
const s1888 = <div title="title number 1888">text number 1888
   continued 1888</div>;
const s1889 = <div title="title number 1889">text number 1889
   continued 1889</div>;
const s1890 = <div title="title number 1890">text number 1890
   continued 1890</div>;
const s1891 = <div title="title number 1891">text number 1891
   continued 1891</div>;
const s1892 = <div title="title number 1892">text number 1892
   continued 1892</div>;
const s1893 = <div title="title number 1893">text number 1893
   continued 1893</div>;
const s1894 = <div title="title number 1894">text number 1894
   continued 1894</div>;
const s1895 = <div title="title number 1895">text number 1895
   continued 1895</div>;
const s1896 = <div title="title number 1896">text number 1896
   continued 1896</div>;
const s1897 = <div title="title number 1897">text number 1897
   continued 1897</div>;
const s1898 = <div title="title number 1898">text number 1898
   continued 1898</div>;
const s1899 = <div title="title number 1899">text number 1899
   continued 1899</div>;
const s1900 = <div title="title number 1900">text number 1900
   continued 1900</div>;
const s1901 = <div title="title number 1901">text number 1901
   continued 1901</div>;
const s1902 = <div title="title number 1902">text number 1902
   continued 1902</div>;
const s1903 = <div title="title number 1903">text number 1903
   continued 1903</div>;
const s1904 = <div title="title number 1904">text number 1904
   continued 1904</div>;
const s1905 = <div title="title number 1905">text number 1905
   continued 1905</div>;
const s1906 = <div title="title number 1906">text number 1906
   continued 1906</div>;
const s1907 = <div title="title number 1907">text number 1907
   continued 1907</div>;
const s1908 = <div title="title number 1908">text number 1908
   continued 1908</div>;
const s1909 = <div title="title number 1909">text number 1909
   continued 1909</div>;
const s1910 = <div title="title number 1910">text number 1910
   continued 1910</div>;
const s1911 = <div title="title number 1911">text number 1911
   continued 1911</div>;
const s1912 = <div title="title number 1912">text number 1912
   continued 1912</div>;
const s1913 = <div title="title number 1913">text number 1913
   continued 1913</div>;
const s1914 = <div title="title number 1914">text number 1914
   continued 1914</div>;
const s1915 = <div title="title number 1915">text number 1915
   continued 1915</div>;
const s1916 = <div title="title number 1916">text number 1916
   continued 1916</div>;
const s1917 = <div title="title number 1917">text number 1917
   continued 1917</div>;
const s1918 = <div title="title number 1918">text number 1918
   continued 1918</div>;
const s1919 = <div title="title number 1919">text number 1919
   continued 1919</div>;
const s1920 = <div title="title number 1920">text number 1920
   continued 1920</div>;
const s1921 = <div title="title number 1921">text number 1921
   continued 1921</div>;
const s1922 = <div title="title number 1922">text number 1922
   continued 1922</div>;
const s1923 = <div title="title number 1923">text number 1923
   continued 1923</div>;
const s1924 = <div title="title number 1924">text number 1924
   continued 1924</div>;
const s1925 = <div title="title number 1925">text number 1925
   continued 1925</div>;
const s1926 = <div title="title number 1926">text number 1926
   continued 1926</div>;
const s1927 = <div title="title number 1927">text number 1927
   continued 1927</div>;
const s1928 = <div title="title number 1928">text number 1928
   continued 1928</div>;
const s1929 = <div title="title number 1929">text number 1929
   continued 1929</div>;
const s1930 = <div title="title number 1930">text number 1930
   continued 1930</div>;
const s1931 = <div title="title number 1931">text number 1931
   continued 1931</div>;
const s1932 = <div title="title number 1932">text number 1932
   continued 1932</div>;
const s1933 = <div title="title number 1933">text number 1933
   continued 1933</div>;
const s1934 = <div title="title number 1934">text number 1934
   continued 1934</div>;
const s1935 = <div title="title number 1935">text number 1935
   continued 1935</div>;
const s1936 = <div title="title number 1936">text number 1936
   continued 1936</div>;
const s1937 = <div title="title number 1937">text number 1937
   continued 1937</div>;
const s1938 = <div title="title number 1938">text number 1938
   continued 1938</div>;
const s1939 = <div title="title number 1939">text number 1939
   continued 1939</div>;
const s1940 = <div title="title number 1940">text number 1940
   continued 1940</div>;
const s1941 = <div title="title number 1941">text number 1941
   continued 1941</div>;
const s1942 = <div title="title number 1942">text number 1942
   continued 1942</div>;
const s1943 = <div title="title number 1943">text number 1943
   continued 1943</div>;
const s1944 = <div title="title number 1944">text number 1944
   continued 1944</div>;
const s1945 = <div title="title number 1945">text number 1945
   continued 1945</div>;
const s1946 = <div title="title number 1946">text number 1946
   continued 1946</div>;
const s1947 = <div title="title number 1947">text number 1947
   continued 1947</div>;
const s1948 = <div title="title number 1948">text number 1948
   continued 1948</div>;
const s1949 = <div title="title number 1949">text number 1949
   continued 1949</div>;
const s1950 = <div title="title number 1950">text number 1950
   continued 1950</div>;
const s1951 = <div title="title number 1951">text number 1951
   continued 1951</div>;
const s1952 = <div title="title number 1952">text number 1952
   continued 1952</div>;
const s1953 = <div title="title number 1953">text number 1953
   continued 1953</div>;
const s1954 = <div title="title number 1954">text number 1954
   continued 1954</div>;
const s1955 = <div title="title number 1955">text number 1955
   continued 1955</div>;
const s1956 = <div title="title number 1956">text number 1956
   continued 1956</div>;
const s1957 = <div title="title number 1957">text number 1957
   continued 1957</div>;
const s1958 = <div title="title number 1958">text number 1958
   continued 1958</div>;
const s1959 = <div title="title number 1959">text number 1959
   continued 1959</div>;
const s1960 = <div title="title number 1960">text number 1960
   continued 1960</div>;
const s1961 = <div title="title number 1961">text number 1961
   continued 1961</div>;
const s1962 = <div title="title number 1962">text number 1962
   continued 1962</div>;
const s1963 = <div title="title number 1963">text number 1963
   continued 1963</div>;
const s1964 = <div title="title number 1964">text number 1964
   continued 1964</div>;
const s1965 = <div title="title number 1965">text number 1965
   continued 1965</div>;
const s1966 = <div title="title number 1966">text number 1966
   continued 1966</div>;
const s1967 = <div title="title number 1967">text number 1967
   continued 1967</div>;
const s1968 = <div title="title number 1968">text number 1968
   continued 1968</div>;
const s1969 = <div title="title number 1969">text number 1969
   continued 1969</div>;
const s1970 = <div title="title number 1970">text number 1970
   continued 1970</div>;
const s1971 = <div title="title number 1971">text number 1971
   continued 1971</div>;
const s1972 = <div title="title number 1972">text number 1972
   continued 1972</div>;
const s1973 = <div title="title number 1973">text number 1973
   continued 1973</div>;
const s1974 = <div title="title number 1974">text number 1974
   continued 1974</div>;
const s1975 = <div title="title number 1975">text number 1975
   continued 1975</div>;
const s1976 = <div title="title number 1976">text number 1976
   continued 1976</div>;
const s1977 = <div title="title number 1977">text number 1977
   continued 1977</div>;
const s1978 = <div title="title number 1978">text number 1978
   continued 1978</div>;
const s1979 = <div title="title number 1979">text number 1979
   continued 1979</div>;
const s1980 = <div title="title number 1980">text number 1980
   continued 1980</div>;
const s1981 = <div title="title number 1981">text number 1981
   continued 1981</div>;
const s1982 = <div title="title number 1982">text number 1982
   continued 1982</div>;
const s1983 = <div title="title number 1983">text number 1983
   continued 1983</div>;
const s1984 = <div title="title number 1984">text number 1984
   continued 1984</div>;
const s1985 = <div title="title number 1985">text number 1985
   continued 1985</div>;
const s1986 = <div title="title number 1986">text number 1986
   continued 1986</div>;
const s1987 = <div title="title number 1987">text number 1987
   continued 1987</div>;
const s1988 = <div title="title number 1988">text number 1988
   continued 1988</div>;
const s1989 = <div title="title number 1989">text number 1989
   continued 1989</div>;
const s1990 = <div title="title number 1990">text number 1990
   continued 1990</div>;
const s1991 = <div title="title number 1991">text number 1991
   continued 1991</div>;
const s1992 = <div title="title number 1992">text number 1992
   continued 1992</div>;
const s1993 = <div title="title number 1993">text number 1993
   continued 1993</div>;
const s1994 = <div title="title number 1994">text number 1994
   continued 1994</div>;
const s1995 = <div title="title number 1995">text number 1995
   continued 1995</div>;
const s1996 = <div title="title number 1996">text number 1996
   continued 1996</div>;
const s1997 = <div title="title number 1997">text number 1997
   continued 1997</div>;
const s1998 = <div title="title number 1998">text number 1998
   continued 1998</div>;
const s1999 = <div title="title number 1999">text number 1999
   continued 1999</div>;
const s2000 = <div title="title number 2000">text number 2000
   continued 2000</div>;
const s2001 = <div title="title number 2001">text number 2001
   continued 2001</div>;
const s2002 = <div title="title number 2002">text number 2002
   continued 2002</div>;
const s2003 = <div title="title number 2003">text number 2003
   continued 2003</div>;
const s2004 = <div title="title number 2004">text number 2004
   continued 2004</div>;
const s2005 = <div title="title number 2005">text number 2005
   continued 2005</div>;
const s2006 = <div title="title number 2006">text number 2006
   continued 2006</div>;
const s2007 = <div title="title number 2007">text number 2007
   continued 2007</div>;
const s2008 = <div title="title number 2008">text number 2008
   continued 2008</div>;
const s2009 = <div title="title number 2009">text number 2009
   continued 2009</div>;
const s2010 = <div title="title number 2010">text number 2010
   continued 2010</div>;
const s2011 = <div title="title number 2011">text number 2011
   continued 2011</div>;
const s2012 = <div title="title number 2012">text number 2012
   continued 2012</div>;
const s2013 = <div title="title number 2013">text number 2013
   continued 2013</div>;
const s2014 = <div title="title number 2014">text number 2014
   continued 2014</div>;
const s2015 = <div title="title number 2015">text number 2015
   continued 2015</div>;
const s2016 = <div title="title number 2016">text number 2016
   continued 2016</div>;
const s2017 = <div title="title number 2017">text number 2017
   continued 2017</div>;
const s2018 = <div title="title number 2018">text number 2018
   continued 2018</div>;
const s2019 = <div title="title number 2019">text number 2019
   continued 2019</div>;
const s2020 = <div title="title number 2020">text number 2020
   continued 2020</div>;
const s2021 = <div title="title number 2021">text number 2021
   continued 2021</div>;
const s2022 = <div title="title number 2022">text number 2022
   continued 2022</div>;
const s2023 = <div title="title number 2023">text number 2023
   continued 2023</div>;
const s2024 = <div title="title number 2024">text number 2024
   continued 2024</div>;
const s2025 = <div title="title number 2025">text number 2025
   continued 2025</div>;
const s2026 = <div title="title number 2026">text number 2026
   continued 2026</div>;
const s2027 = <div title="title number 2027">text number 2027
   continued 2027</div>;
const s2028 = <div title="title number 2028">text number 2028
   continued 2028</div>;
const s2029 = <div title="title number 2029">text number 2029
   continued 2029</div>;
const s2030 = <div title="title number 2030">text number 2030
   continued 2030</div>;
const s2031 = <div title="title number 2031">text number 2031
   continued 2031</div>;
const s2032 = <div title="title number 2032">text number 2032
   continued 2032</div>;
const s2033 = <div title="title number 2033">text number 2033
   continued 2033</div>;
const s2034 = <div title="title number 2034">text number 2034
   continued 2034</div>;
const s2035 = <div title="title number 2035">text number 2035
   continued 2035</div>;
const s2036 = <div title="title number 2036">text number 2036
   continued 2036</div>;
const s2037 = <div title="title number 2037">text number 2037
   continued 2037</div>;
const s2038 = <div title="title number 2038">text number 2038
   continued 2038</div>;
const s2039 = <div title="title number 2039">text number 2039
   continued 2039</div>;
const s2040 = <div title="title number 2040">text number 2040
   continued 2040</div>;
const s2041 = <div title="title number 2041">text number 2041
   continued 2041</div>;
const s2042 = <div title="title number 2042">text number 2042
   continued 2042</div>;
const s2043 = <div title="title number 2043">text number 2043
   continued 2043</div>;
const s2044 = <div title="title number 2044">text number 2044
   continued 2044</div>;
const s2045 = <div title="title number 2045">text number 2045
   continued 2045</div>;
const s2046 = <div title="title number 2046">text number 2046
   continued 2046</div>;
const s2047 = <div title="title number 2047">text number 2047
   continued 2047</div>;
const s2048 = <div title="title number 2048">text number 2048
   continued 2048</div>;
const s2049 = <div title="title number 2049">text number 2049
   continued 2049</div>;
const s2050 = <div title="title number 2050">text number 2050
   continued 2050</div>;
const s2051 = <div title="title number 2051">text number 2051
   continued 2051</div>;
const s2052 = <div title="title number 2052">text number 2052
   continued 2052</div>;
const s2053 = <div title="title number 2053">text number 2053
   continued 2053</div>;
const s2054 = <div title="title number 2054">text number 2054
   continued 2054</div>;
const s2055 = <div title="title number 2055">text number 2055
   continued 2055</div>;
const s2056 = <div title="title number 2056">text number 2056
   continued 2056</div>;
const s2057 = <div title="title number 2057">text number 2057
   continued 2057</div>;
const s2058 = <div title="title number 2058">text number 2058
   continued 2058</div>;
const s2059 = <div title="title number 2059">text number 2059
   continued 2059</div>;
const s2060 = <div title="title number 2060">text number 2060
   continued 2060</div>;
const s2061 = <div title="title number 2061">text number 2061
   continued 2061</div>;
const s2062 = <div title="title number 2062">text number 2062
   continued 2062</div>;
const s2063 = <div title="title number 2063">text number 2063
   continued 2063</div>;
const s2064 = <div title="title number 2064">text number 2064
   continued 2064</div>;
const s2065 = <div title="title number 2065">text number 2065
   continued 2065</div>;
const s2066 = <div title="title number 2066">text number 2066
   continued 2066</div>;
const s2067 = <div title="title number 2067">text number 2067
   continued 2067</div>;
const s2068 = <div title="title number 2068">text number 2068
   continued 2068</div>;
const s2069 = <div title="title number 2069">text number 2069
   continued 2069</div>;
const s2070 = <div title="title number 2070">text number 2070
   continued 2070</div>;
const s2071 = <div title="title number 2071">text number 2071
   continued 2071</div>;
const s2072 = <div title="title number 2072">text number 2072
   continued 2072</div>;
const s2073 = <div title="title number 2073">text number 2073
   continued 2073</div>;
const s2074 = <div title="title number 2074">text number 2074
   continued 2074</div>;
const s2075 = <div title="title number 2075">text number 2075
   continued 2075</div>;
const s2076 = <div title="title number 2076">text number 2076
   continued 2076</div>;
const s2077 = <div title="title number 2077">text number 2077
   continued 2077</div>;
const s2078 = <div title="title number 2078">text number 2078
   continued 2078</div>;
const s2079 = <div title="title number 2079">text number 2079
   continued 2079</div>;
const s2080 = <div title="title number 2080">text number 2080
   continued 2080</div>;
const s2081 = <div title="title number 2081">text number 2081
   continued 2081</div>;
const s2082 = <div title="title number 2082">text number 2082
   continued 2082</div>;
const s2083 = <div title="title number 2083">text number 2083
   continued 2083</div>;
const s2084 = <div title="title number 2084">text number 2084
   continued 2084</div>;
const s2085 = <div title="title number 2085">text number 2085
   continued 2085</div>;
const s2086 = <div title="title number 2086">text number 2086
   continued 2086</div>;
const s2087 = <div title="title number 2087">text number 2087
   continued 2087</div>;
const s2088 = <div title="title number 2088">text number 2088
   continued 2088</div>;
const s2089 = <div title="title number 2089">text number 2089
   continued 2089</div>;
const s2090 = <div title="title number 2090">text number 2090
   continued 2090</div>;
const s2091 = <div title="title number 2091">text number 2091
   continued 2091</div>;
const s2092 = <div title="title number 2092">text number 2092
   continued 2092</div>;
const s2093 = <div title="title number 2093">text number 2093
   continued 2093</div>;
const s2094 = <div title="title number 2094">text number 2094
   continued 2094</div>;
const s2095 = <div title="title number 2095">text number 2095
   continued 2095</div>;
const s2096 = <div title="title number 2096">text number 2096
   continued 2096</div>;
const s2097 = <div title="title number 2097">text number 2097
   continued 2097</div>;
const s2098 = <div title="title number 2098">text number 2098
   continued 2098</div>;
const s2099 = <div title="title number 2099">text number 2099
   continued 2099</div>;
const s2100 = <div title="title number 2100">text number 2100
   continued 2100</div>;
const s2101 = <div title="title number 2101">text number 2101
   continued 2101</div>;
const s2102 = <div title="title number 2102">text number 2102
   continued 2102</div>;
const s2103 = <div title="title number 2103">text number 2103
   continued 2103</div>;
const s2104 = <div title="title number 2104">text number 2104
   continued 2104</div>;
const s2105 = <div title="title number 2105">text number 2105
   continued 2105</div>;
const s2106 = <div title="title number 2106">text number 2106
   continued 2106</div>;
const s2107 = <div title="title number 2107">text number 2107
   continued 2107</div>;
const s2108 = <div title="title number 2108">text number 2108
   continued 2108</div>;
const s2109 = <div title="title number 2109">text number 2109
   continued 2109</div>;
const s2110 = <div title="title number 2110">text number 2110
   continued 2110</div>;
const s2111 = <div title="title number 2111">text number 2111
   continued 2111</div>;
const s2112 = <div title="title number 2112">text number 2112
   continued 2112</div>;
const s2113 = <div title="title number 2113">text number 2113
   continued 2113</div>;
const s2114 = <div title="title number 2114">text number 2114
   continued 2114</div>;
const s2115 = <div title="title number 2115">text number 2115
   continued 2115</div>;
const s2116 = <div title="title number 2116">text number 2116
   continued 2116</div>;
const s2117 = <div title="title number 2117">text number 2117
   continued 2117</div>;
const s2118 = <div title="title number 2118">text number 2118
   continued 2118</div>;
const s2119 = <div title="title number 2119">text number 2119
   continued 2119</div>;
const s2120 = <div title="title number 2120">text number 2120
   continued 2120</div>;
const s2121 = <div title="title number 2121">text number 2121
   continued 2121</div>;
const s2122 = <div title="title number 2122">text number 2122
   continued 2122</div>;
const s2123 = <div title="title number 2123">text number 2123
   continued 2123</div>;
const s2124 = <div title="title number 2124">text number 2124
   continued 2124</div>;
const s2125 = <div title="title number 2125">text number 2125
   continued 2125</div>;
const s2126 = <div title="title number 2126">text number 2126
   continued 2126</div>;
const s2127 = <div title="title number 2127">text number 2127
   continued 2127</div>;
const s2128 = <div title="title number 2128">text number 2128
   continued 2128</div>;
const s2129 = <div title="title number 2129">text number 2129
   continued 2129</div>;
const s2130 = <div title="title number 2130">text number 2130
   continued 2130</div>;
const s2131 = <div title="title number 2131">text number 2131
   continued 2131</div>;
const s2132 = <div title="title number 2132">text number 2132
   continued 2132</div>;
const s2133 = <div title="title number 2133">text number 2133
   continued 2133</div>;
const s2134 = <div title="title number 2134">text number 2134
   continued 2134</div>;
const s2135 = <div title="title number 2135">text number 2135
   continued 2135</div>;
const s2136 = <div title="title number 2136">text number 2136
   continued 2136</div>;
const s2137 = <div title="title number 2137">text number 2137
   continued 2137</div>;
const s2138 = <div title="title number 2138">text number 2138
   continued 2138</div>;
const s2139 = <div title="title number 2139">text number 2139
   continued 2139</div>;
const s2140 = <div title="title number 2140">text number 2140
   continued 2140</div>;
const s2141 = <div title="title number 2141">text number 2141
   continued 2141</div>;
const s2142 = <div title="title number 2142">text number 2142
   continued 2142</div>;
const s2143 = <div title="title number 2143">text number 2143
   continued 2143</div>;
const s2144 = <div title="title number 2144">text number 2144
   continued 2144</div>;
const s2145 = <div title="title number 2145">text number 2145
   continued 2145</div>;
const s2146 = <div title="title number 2146">text number 2146
   continued 2146</div>;
const s2147 = <div title="title number 2147">text number 2147
   continued 2147</div>;
const s2148 = <div title="title number 2148">text number 2148
   continued 2148</div>;
const s2149 = <div title="title number 2149">text number 2149
   continued 2149</div>;
const s2150 = <div title="title number 2150">text number 2150
   continued 2150</div>;
const s2151 = <div title="title number 2151">text number 2151
   continued 2151</div>;
const s2152 = <div title="title number 2152">text number 2152
   continued 2152</div>;
const s2153 = <div title="title number 2153">text number 2153
   continued 2153</div>;
const s2154 = <div title="title number 2154">text number 2154
   continued 2154</div>;
const s2155 = <div title="title number 2155">text number 2155
   continued 2155</div>;
const s2156 = <div title="title number 2156">text number 2156
   continued 2156</div>;
const s2157 = <div title="title number 2157">text number 2157
   continued 2157</div>;
const s2158 = <div title="title number 2158">text number 2158
   continued 2158</div>;
const s2159 = <div title="title number 2159">text number 2159
   continued 2159</div>;
const s2160 = <div title="title number 2160">text number 2160
   continued 2160</div>;
const s2161 = <div title="title number 2161">text number 2161
   continued 2161</div>;
const s2162 = <div title="title number 2162">text number 2162
   continued 2162</div>;
const s2163 = <div title="title number 2163">text number 2163
   continued 2163</div>;
const s2164 = <div title="title number 2164">text number 2164
   continued 2164</div>;
const s2165 = <div title="title number 2165">text number 2165
   continued 2165</div>;
const s2166 = <div title="title number 2166">text number 2166
   continued 2166</div>;
const s2167 = <div title="title number 2167">text number 2167
   continued 2167</div>;
const s2168 = <div title="title number 2168">text number 2168
   continued 2168</div>;
const s2169 = <div title="title number 2169">text number 2169
   continued 2169</div>;
const s2170 = <div title="title number 2170">text number 2170
   continued 2170</div>;
const s2171 = <div title="title number 2171">text number 2171
   continued 2171</div>;
const s2172 = <div title="title number 2172">text number 2172
   continued 2172</div>;
const s2173 = <div title="title number 2173">text number 2173
   continued 2173</div>;
const s2174 = <div title="title number 2174">text number 2174
   continued 2174</div>;
const s2175 = <div title="title number 2175">text number 2175
   continued 2175</div>;
const s2176 = <div title="title number 2176">text number 2176
   continued 2176</div>;
const s2177 = <div title="title number 2177">text number 2177
   continued 2177</div>;
const s2178 = <div title="title number 2178">text number 2178
   continued 2178</div>;
const s2179 = <div title="title number 2179">text number 2179
   continued 2179</div>;
const s2180 = <div title="title number 2180">text number 2180
   continued 2180</div>;
const s2181 = <div title="title number 2181">text number 2181
   continued 2181</div>;
const s2182 = <div title="title number 2182">text number 2182
   continued 2182</div>;
const s2183 = <div title="title number 2183">text number 2183
   continued 2183</div>;
const s2184 = <div title="title number 2184">text number 2184
   continued 2184</div>;
const s2185 = <div title="title number 2185">text number 2185
   continued 2185</div>;
const s2186 = <div title="title number 2186">text number 2186
   continued 2186</div>;
const s2187 = <div title="title number 2187">text number 2187
   continued 2187</div>;
const s2188 = <div title="title number 2188">text number 2188
   continued 2188</div>;
const s2189 = <div title="title number 2189">text number 2189
   continued 2189</div>;
const s2190 = <div title="title number 2190">text number 2190
   continued 2190</div>;
const s2191 = <div title="title number 2191">text number 2191
   continued 2191</div>;
const s2192 = <div title="title number 2192">text number 2192
   continued 2192</div>;
const s2193 = <div title="title number 2193">text number 2193
   continued 2193</div>;
const s2194 = <div title="title number 2194">text number 2194
   continued 2194</div>;
const s2195 = <div title="title number 2195">text number 2195
   continued 2195</div>;
const s2196 = <div title="title number 2196">text number 2196
   continued 2196</div>;
const s2197 = <div title="title number 2197">text number 2197
   continued 2197</div>;
const s2198 = <div title="title number 2198">text number 2198
   continued 2198</div>;
const s2199 = <div title="title number 2199">text number 2199
   continued 2199</div>;
const s2200 = <div title="title number 2200">text number 2200
   continued 2200</div>;
const s2201 = <div title="title number 2201">text number 2201
   continued 2201</div>;
const s2202 = <div title="title number 2202">text number 2202
   continued 2202</div>;
const s2203 = <div title="title number 2203">text number 2203
   continued 2203</div>;
const s2204 = <div title="title number 2204">text number 2204
   continued 2204</div>;
const s2205 = <div title="title number 2205">text number 2205
   continued 2205</div>;
const s2206 = <div title="title number 2206">text number 2206
   continued 2206</div>;
const s2207 = <div title="title number 2207">text number 2207
   continued 2207</div>;
const s2208 = <div title="title number 2208">text number 2208
   continued 2208</div>;
const s2209 = <div title="title number 2209">text number 2209
   continued 2209</div>;
const s2210 = <div title="title number 2210">text number 2210
   continued 2210</div>;
const s2211 = <div title="title number 2211">text number 2211
   continued 2211</div>;
const s2212 = <div title="title number 2212">text number 2212
   continued 2212</div>;
const s2213 = <div title="title number 2213">text number 2213
   continued 2213</div>;
const s2214 = <div title="title number 2214">text number 2214
   continued 2214</div>;
const s2215 = <div title="title number 2215">text number 2215
   continued 2215</div>;
const s2216 = <div title="title number 2216">text number 2216
   continued 2216</div>;
const s2217 = <div title="title number 2217">text number 2217
   continued 2217</div>;
const s2218 = <div title="title number 2218">text number 2218
   continued 2218</div>;
const s2219 = <div title="title number 2219">text number 2219
   continued 2219</div>;
const s2220 = <div title="title number 2220">text number 2220
   continued 2220</div>;
const s2221 = <div title="title number 2221">text number 2221
   continued 2221</div>;
const s2222 = <div title="title number 2222">text number 2222
   continued 2222</div>;
const s2223 = <div title="title number 2223">text number 2223
   continued 2223</div>;
const s2224 = <div title="title number 2224">text number 2224
   continued 2224</div>;
const s2225 = <div title="title number 2225">text number 2225
   continued 2225</div>;
const s2226 = <div title="title number 2226">text number 2226
   continued 2226</div>;
const s2227 = <div title="title number 2227">text number 2227
   continued 2227</div>;
const s2228 = <div title="title number 2228">text number 2228
   continued 2228</div>;
const s2229 = <div title="title number 2229">text number 2229
   continued 2229</div>;
const s2230 = <div title="title number 2230">text number 2230
   continued 2230</div>;
const s2231 = <div title="title number 2231">text number 2231
   continued 2231</div>;
const s2232 = <div title="title number 2232">text number 2232
   continued 2232</div>;
const s2233 = <div title="title number 2233">text number 2233
   continued 2233</div>;
const s2234 = <div title="title number 2234">text number 2234
   continued 2234</div>;
const s2235 = <div title="title number 2235">text number 2235
   continued 2235</div>;
const s2236 = <div title="title number 2236">text number 2236
   continued 2236</div>;
const s2237 = <div title="title number 2237">text number 2237
   continued 2237</div>;
const s2238 = <div title="title number 2238">text number 2238
   continued 2238</div>;
const s2239 = <div title="title number 2239">text number 2239
   continued 2239</div>;
const s2240 = <div title="title number 2240">text number 2240
   continued 2240</div>;
const s2241 = <div title="title number 2241">text number 2241
   continued 2241</div>;
const s2242 = <div title="title number 2242">text number 2242
   continued 2242</div>;
const s2243 = <div title="title number 2243">text number 2243
   continued 2243</div>;
const s2244 = <div title="title number 2244">text number 2244
   continued 2244</div>;
const s2245 = <div title="title number 2245">text number 2245
   continued 2245</div>;
const s2246 = <div title="title number 2246">text number 2246
   continued 2246</div>;
const s2247 = <div title="title number 2247">text number 2247
   continued 2247</div>;
const s2248 = <div title="title number 2248">text number 2248
   continued 2248</div>;
const s2249 = <div title="title number 2249">text number 2249
   continued 2249</div>;
const s2250 = <div title="title number 2250">text number 2250
   continued 2250</div>;
const s2251 = <div title="title number 2251">text number 2251
   continued 2251</div>;
const s2252 = <div title="title number 2252">text number 2252
   continued 2252</div>;
const s2253 = <div title="title number 2253">text number 2253
   continued 2253</div>;
const s2254 = <div title="title number 2254">text number 2254
   continued 2254</div>;
const s2255 = <div title="title number 2255">text number 2255
   continued 2255</div>;
const s2256 = <div title="title number 2256">text number 2256
   continued 2256</div>;
const s2257 = <div title="title number 2257">text number 2257
   continued 2257</div>;
const s2258 = <div title="title number 2258">text number 2258
   continued 2258</div>;
const s2259 = <div title="title number 2259">text number 2259
   continued 2259</div>;
const s2260 = <div title="title number 2260">text number 2260
   continued 2260</div>;
const s2261 = <div title="title number 2261">text number 2261
   continued 2261</div>;
const s2262 = <div title="title number 2262">text number 2262
   continued 2262</div>;
const s2263 = <div title="title number 2263">text number 2263
   continued 2263</div>;
const s2264 = <div title="title number 2264">text number 2264
   continued 2264</div>;
const s2265 = <div title="title number 2265">text number 2265
   continued 2265</div>;
const s2266 = <div title="title number 2266">text number 2266
   continued 2266</div>;
const s2267 = <div title="title number 2267">text number 2267
   continued 2267</div>;
const s2268 = <div title="title number 2268">text number 2268
   continued 2268</div>;
const s2269 = <div title="title number 2269">text number 2269
   continued 2269</div>;
const s2270 = <div title="title number 2270">text number 2270
   continued 2270</div>;
const s2271 = <div title="title number 2271">text number 2271
   continued 2271</div>;
const s2272 = <div title="title number 2272">text number 2272
   continued 2272</div>;
const s2273 = <div title="title number 2273">text number 2273
   continued 2273</div>;
const s2274 = <div title="title number 2274">text number 2274
   continued 2274</div>;
const s2275 = <div title="title number 2275">text number 2275
   continued 2275</div>;
const s2276 = <div title="title number 2276">text number 2276
   continued 2276</div>;
const s2277 = <div title="title number 2277">text number 2277
   continued 2277</div>;
const s2278 = <div title="title number 2278">text number 2278
   continued 2278</div>;
const s2279 = <div title="title number 2279">text number 2279
   continued 2279</div>;
const s2280 = <div title="title number 2280">text number 2280
   continued 2280</div>;
const s2281 = <div title="title number 2281">text number 2281
   continued 2281</div>;
const s2282 = <div title="title number 2282">text number 2282
   continued 2282</div>;
const s2283 = <div title="title number 2283">text number 2283
   continued 2283</div>;
const s2284 = <div title="title number 2284">text number 2284
   continued 2284</div>;
const s2285 = <div title="title number 2285">text number 2285
   continued 2285</div>;
const s2286 = <div title="title number 2286">text number 2286
   continued 2286</div>;
const s2287 = <div title="title number 2287">text number 2287
   continued 2287</div>;
const s2288 = <div title="title number 2288">text number 2288
   continued 2288</div>;
const s2289 = <div title="title number 2289">text number 2289
   continued 2289</div>;
const s2290 = <div title="title number 2290">text number 2290
   continued 2290</div>;
const s2291 = <div title="title number 2291">text number 2291
   continued 2291</div>;
const s2292 = <div title="title number 2292">text number 2292
   continued 2292</div>;
const s2293 = <div title="title number 2293">text number 2293
   continued 2293</div>;
const s2294 = <div title="title number 2294">text number 2294
   continued 2294</div>;
const s2295 = <div title="title number 2295">text number 2295
   continued 2295</div>;
const s2296 = <div title="title number 2296">text number 2296
   continued 2296</div>;
const s2297 = <div title="title number 2297">text number 2297
   continued 2297</div>;
const s2298 = <div title="title number 2298">text number 2298
   continued 2298</div>;
const s2299 = <div title="title number 2299">text number 2299
   continued 2299</div>;
const s2300 = <div title="title number 2300">text number 2300
   continued 2300</div>;
const s2301 = <div title="title number 2301">text number 2301
   continued 2301</div>;
const s2302 = <div title="title number 2302">text number 2302
   continued 2302</div>;
const s2303 = <div title="title number 2303">text number 2303
   continued 2303</div>;
const s2304 = <div title="title number 2304">text number 2304
   continued 2304</div>;
const s2305 = <div title="title number 2305">text number 2305
   continued 2305</div>;
const s2306 = <div title="title number 2306">text number 2306
   continued 2306</div>;
const s2307 = <div title="title number 2307">text number 2307
   continued 2307</div>;
const s2308 = <div title="title number 2308">text number 2308
   continued 2308</div>;
const s2309 = <div title="title number 2309">text number 2309
   continued 2309</div>;
const s2310 = <div title="title number 2310">text number 2310
   continued 2310</div>;
const s2311 = <div title="title number 2311">text number 2311
   continued 2311</div>;
const s2312 = <div title="title number 2312">text number 2312
   continued 2312</div>;
const s2313 = <div title="title number 2313">text number 2313
   continued 2313</div>;
const s2314 = <div title="title number 2314">text number 2314
   continued 2314</div>;
const s2315 = <div title="title number 2315">text number 2315
   continued 2315</div>;
const s2316 = <div title="title number 2316">text number 2316
   continued 2316</div>;
const s2317 = <div title="title number 2317">text number 2317
   continued 2317</div>;
const s2318 = <div title="title number 2318">text number 2318
   continued 2318</div>;
const s2319 = <div title="title number 2319">text number 2319
   continued 2319</div>;
const s2320 = <div title="title number 2320">text number 2320
   continued 2320</div>;
const s2321 = <div title="title number 2321">text number 2321
   continued 2321</div>;
const s2322 = <div title="title number 2322">text number 2322
   continued 2322</div>;
const s2323 = <div title="title number 2323">text number 2323
   continued 2323</div>;
const s2324 = <div title="title number 2324">text number 2324
   continued 2324</div>;
const s2325 = <div title="title number 2325">text number 2325
   continued 2325</div>;
const s2326 = <div title="title number 2326">text number 2326
   continued 2326</div>;
const s2327 = <div title="title number 2327">text number 2327
   continued 2327</div>;
const s2328 = <div title="title number 2328">text number 2328
   continued 2328</div>;
const s2329 = <div title="title number 2329">text number 2329
   continued 2329</div>;
const s2330 = <div title="title number 2330">text number 2330
   continued 2330</div>;
const s2331 = <div title="title number 2331">text number 2331
   continued 2331</div>;
const s2332 = <div title="title number 2332">text number 2332
   continued 2332</div>;
const s2333 = <div title="title number 2333">text number 2333
   continued 2333</div>;
const s2334 = <div title="title number 2334">text number 2334
   continued 2334</div>;
const s2335 = <div title="title number 2335">text number 2335
   continued 2335</div>;
const s2336 = <div title="title number 2336">text number 2336
   continued 2336</div>;
const s2337 = <div title="title number 2337">text number 2337
   continued 2337</div>;
const s2338 = <div title="title number 2338">text number 2338
   continued 2338</div>;
const s2339 = <div title="title number 2339">text number 2339
   continued 2339</div>;
const s2340 = <div title="title number 2340">text number 2340
   continued 2340</div>;
const s2341 = <div title="title number 2341">text number 2341
   continued 2341</div>;
const s2342 = <div title="title number 2342">text number 2342
   continued 2342</div>;
const s2343 = <div title="title number 2343">text number 2343
   continued 2343</div>;
const s2344 = <div title="title number 2344">text number 2344
   continued 2344</div>;
const s2345 = <div title="title number 2345">text number 2345
   continued 2345</div>;
const s2346 = <div title="title number 2346">text number 2346
   continued 2346</div>;
const s2347 = <div title="title number 2347">text number 2347
   continued 2347</div>;
const s2348 = <div title="title number 2348">text number 2348
   continued 2348</div>;
const s2349 = <div title="title number 2349">text number 2349
   continued 2349</div>;
const s2350 = <div title="title number 2350">text number 2350
   continued 2350</div>;
const s2351 = <div title="title number 2351">text number 2351
   continued 2351</div>;
const s2352 = <div title="title number 2352">text number 2352
   continued 2352</div>;
const s2353 = <div title="title number 2353">text number 2353
   continued 2353</div>;
const s2354 = <div title="title number 2354">text number 2354
   continued 2354</div>;
const s2355 = <div title="title number 2355">text number 2355
   continued 2355</div>;
const s2356 = <div title="title number 2356">text number 2356
   continued 2356</div>;
const s2357 = <div title="title number 2357">text number 2357
   continued 2357</div>;
const s2358 = <div title="title number 2358">text number 2358
   continued 2358</div>;
const s2359 = <div title="title number 2359">text number 2359
   continued 2359</div>;
const s2360 = <div title="title number 2360">text number 2360
   continued 2360</div>;
const s2361 = <div title="title number 2361">text number 2361
   continued 2361</div>;
const s2362 = <div title="title number 2362">text number 2362
   continued 2362</div>;
const s2363 = <div title="title number 2363">text number 2363
   continued 2363</div>;
const s2364 = <div title="title number 2364">text number 2364
   continued 2364</div>;
const s2365 = <div title="title number 2365">text number 2365
   continued 2365</div>;
const s2366 = <div title="title number 2366">text number 2366
   continued 2366</div>;
const s2367 = <div title="title number 2367">text number 2367
   continued 2367</div>;
const s2368 = <div title="title number 2368">text number 2368
   continued 2368</div>;
const s2369 = <div title="title number 2369">text number 2369
   continued 2369</div>;
const s2370 = <div title="title number 2370">text number 2370
   continued 2370</div>;
const s2371 = <div title="title number 2371">text number 2371
   continued 2371</div>;
const s2372 = <div title="title number 2372">text number 2372
   continued 2372</div>;
const s2373 = <div title="title number 2373">text number 2373
   continued 2373</div>;
const s2374 = <div title="title number 2374">text number 2374
   continued 2374</div>;
const s2375 = <div title="title number 2375">text number 2375
   continued 2375</div>;
const s2376 = <div title="title number 2376">text number 2376
   continued 2376</div>;
const s2377 = <div title="title number 2377">text number 2377
   continued 2377</div>;
const s2378 = <div title="title number 2378">text number 2378
   continued 2378</div>;
const s2379 = <div title="title number 2379">text number 2379
   continued 2379</div>;
const s2380 = <div title="title number 2380">text number 2380
   continued 2380</div>;
const s2381 = <div title="title number 2381">text number 2381
   continued 2381</div>;
const s2382 = <div title="title number 2382">text number 2382
   continued 2382</div>;
const s2383 = <div title="title number 2383">text number 2383
   continued 2383</div>;
const s2384 = <div title="title number 2384">text number 2384
   continued 2384</div>;
const s2385 = <div title="title number 2385">text number 2385
   continued 2385</div>;
const s2386 = <div title="title number 2386">text number 2386
   continued 2386</div>;
const s2387 = <div title="title number 2387">text number 2387
   continued 2387</div>;
const s2388 = <div title="title number 2388">text number 2388
   continued 2388</div>;
const s2389 = <div title="title number 2389">text number 2389
   continued 2389</div>;
const s2390 = <div title="title number 2390">text number 2390
   continued 2390</div>;
const s2391 = <div title="title number 2391">text number 2391
   continued 2391</div>;
const s2392 = <div title="title number 2392">text number 2392
   continued 2392</div>;
const s2393 = <div title="title number 2393">text number 2393
   continued 2393</div>;
const s2394 = <div title="title number 2394">text number 2394
   continued 2394</div>;
const s2395 = <div title="title number 2395">text number 2395
   continued 2395</div>;
const s2396 = <div title="title number 2396">text number 2396
   continued 2396</div>;
const s2397 = <div title="title number 2397">text number 2397
   continued 2397</div>;
const s2398 = <div title="title number 2398">text number 2398
   continued 2398</div>;
const s2399 = <div title="title number 2399">text number 2399
   continued 2399</div>;
const s2400 = <div title="title number 2400">text number 2400
   continued 2400</div>;
const s2401 = <div title="title number 2401">text number 2401
   continued 2401</div>;
const s2402 = <div title="title number 2402">text number 2402
   continued 2402</div>;
const s2403 = <div title="title number 2403">text number 2403
   continued 2403</div>;
const s2404 = <div title="title number 2404">text number 2404
   continued 2404</div>;
const s2405 = <div title="title number 2405">text number 2405
   continued 2405</div>;
const s2406 = <div title="title number 2406">text number 2406
   continued 2406</div>;
const s2407 = <div title="title number 2407">text number 2407
   continued 2407</div>;
const s2408 = <div title="title number 2408">text number 2408
   continued 2408</div>;
const s2409 = <div title="title number 2409">text number 2409
   continued 2409</div>;
const s2410 = <div title="title number 2410">text number 2410
   continued 2410</div>;
const s2411 = <div title="title number 2411">text number 2411
   continued 2411</div>;
const s2412 = <div title="title number 2412">text number 2412
   continued 2412</div>;
const s2413 = <div title="title number 2413">text number 2413
   continued 2413</div>;
const s2414 = <div title="title number 2414">text number 2414
   continued 2414</div>;
const s2415 = <div title="title number 2415">text number 2415
   continued 2415</div>;
const s2416 = <div title="title number 2416">text number 2416
   continued 2416</div>;
const s2417 = <div title="title number 2417">text number 2417
   continued 2417</div>;
const s2418 = <div title="title number 2418">text number 2418
   continued 2418</div>;
const s2419 = <div title="title number 2419">text number 2419
   continued 2419</div>;
const s2420 = <div title="title number 2420">text number 2420
   continued 2420</div>;
const s2421 = <div title="title number 2421">text number 2421
   continued 2421</div>;
const s2422 = <div title="title number 2422">text number 2422
   continued 2422</div>;
const s2423 = <div title="title number 2423">text number 2423
   continued 2423</div>;
const s2424 = <div title="title number 2424">text number 2424
   continued 2424</div>;
const s2425 = <div title="title number 2425">text number 2425
   continued 2425</div>;
const s2426 = <div title="title number 2426">text number 2426
   continued 2426</div>;
const s2427 = <div title="title number 2427">text number 2427
   continued 2427</div>;
const s2428 = <div title="title number 2428">text number 2428
   continued 2428</div>;
const s2429 = <div title="title number 2429">text number 2429
   continued 2429</div>;
const s2430 = <div title="title number 2430">text number 2430
   continued 2430</div>;
const s2431 = <div title="title number 2431">text number 2431
   continued 2431</div>;
const s2432 = <div title="title number 2432">text number 2432
   continued 2432</div>;
const s2433 = <div title="title number 2433">text number 2433
   continued 2433</div>;
const s2434 = <div title="title number 2434">text number 2434
   continued 2434</div>;
const s2435 = <div title="title number 2435">text number 2435
   continued 2435</div>;
const s2436 = <div title="title number 2436">text number 2436
   continued 2436</div>;
const s2437 = <div title="title number 2437">text number 2437
   continued 2437</div>;
const s2438 = <div title="title number 2438">text number 2438
   continued 2438</div>;
const s2439 = <div title="title number 2439">text number 2439
   continued 2439</div>;
const s2440 = <div title="title number 2440">text number 2440
   continued 2440</div>;
const s2441 = <div title="title number 2441">text number 2441
   continued 2441</div>;
const s2442 = <div title="title number 2442">text number 2442
   continued 2442</div>;
const s2443 = <div title="title number 2443">text number 2443
   continued 2443</div>;
const s2444 = <div title="title number 2444">text number 2444
   continued 2444</div>;
const s2445 = <div title="title number 2445">text number 2445
   continued 2445</div>;
const s2446 = <div title="title number 2446">text number 2446
   continued 2446</div>;
const s2447 = <div title="title number 2447">text number 2447
   continued 2447</div>;
const s2448 = <div title="title number 2448">text number 2448
   continued 2448</div>;
const s2449 = <div title="title number 2449">text number 2449
   continued 2449</div>;
const s2450 = <div title="title number 2450">text number 2450
   continued 2450</div>;
const s2451 = <div title="title number 2451">text number 2451
   continued 2451</div>;
const s2452 = <div title="title number 2452">text number 2452
   continued 2452</div>;
const s2453 = <div title="title number 2453">text number 2453
   continued 2453</div>;
const s2454 = <div title="title number 2454">text number 2454
   continued 2454</div>;
const s2455 = <div title="title number 2455">text number 2455
   continued 2455</div>;
const s2456 = <div title="title number 2456">text number 2456
   continued 2456</div>;
const s2457 = <div title="title number 2457">text number 2457
   continued 2457</div>;
const s2458 = <div title="title number 2458">text number 2458
   continued 2458</div>;
const s2459 = <div title="title number 2459">text number 2459
   continued 2459</div>;
const s2460 = <div title="title number 2460">text number 2460
   continued 2460</div>;
const s2461 = <div title="title number 2461">text number 2461
   continued 2461</div>;
const s2462 = <div title="title number 2462">text number 2462
   continued 2462</div>;
const s2463 = <div title="title number 2463">text number 2463
   continued 2463</div>;
const s2464 = <div title="title number 2464">text number 2464
   continued 2464</div>;
const s2465 = <div title="title number 2465">text number 2465
   continued 2465</div>;
const s2466 = <div title="title number 2466">text number 2466
   continued 2466</div>;
const s2467 = <div title="title number 2467">text number 2467
   continued 2467</div>;
const s2468 = <div title="title number 2468">text number 2468
   continued 2468</div>;
const s2469 = <div title="title number 2469">text number 2469
   continued 2469</div>;
const s2470 = <div title="title number 2470">text number 2470
   continued 2470</div>;
const s2471 = <div title="title number 2471">text number 2471
   continued 2471</div>;
const s2472 = <div title="title number 2472">text number 2472
   continued 2472</div>;
const s2473 = <div title="title number 2473">text number 2473
   continued 2473</div>;
const s2474 = <div title="title number 2474">text number 2474
   continued 2474</div>;
const s2475 = <div title="title number 2475">text number 2475
   continued 2475</div>;
const s2476 = <div title="title number 2476">text number 2476
   continued 2476</div>;
const s2477 = <div title="title number 2477">text number 2477
   continued 2477</div>;
const s2478 = <div title="title number 2478">text number 2478
   continued 2478</div>;
const s2479 = <div title="title number 2479">text number 2479
   continued 2479</div>;
const s2480 = <div title="title number 2480">text number 2480
   continued 2480</div>;
const s2481 = <div title="title number 2481">text number 2481
   continued 2481</div>;
const s2482 = <div title="title number 2482">text number 2482
   continued 2482</div>;
const s2483 = <div title="title number 2483">text number 2483
   continued 2483</div>;
const s2484 = <div title="title number 2484">text number 2484
   continued 2484</div>;
const s2485 = <div title="title number 2485">text number 2485
   continued 2485</div>;
const s2486 = <div title="title number 2486">text number 2486
   continued 2486</div>;
const s2487 = <div title="title number 2487">text number 2487
   continued 2487</div>;
const s2488 = <div title="title number 2488">text number 2488
   continued 2488</div>;
const s2489 = <div title="title number 2489">text number 2489
   continued 2489</div>;
const s2490 = <div title="title number 2490">text number 2490
   continued 2490</div>;
const s2491 = <div title="title number 2491">text number 2491
   continued 2491</div>;
const s2492 = <div title="title number 2492">text number 2492
   continued 2492</div>;
const s2493 = <div title="title number 2493">text number 2493
   continued 2493</div>;
const s2494 = <div title="title number 2494">text number 2494
   continued 2494</div>;
const s2495 = <div title="title number 2495">text number 2495
   continued 2495</div>;
const s2496 = <div title="title number 2496">text number 2496
   continued 2496</div>;
const s2497 = <div title="title number 2497">text number 2497
   continued 2497</div>;
const s2498 = <div title="title number 2498">text number 2498
   continued 2498</div>;
const s2499 = <div title="title number 2499">text number 2499
   continued 2499</div>;
const s2500 = <div title="title number 2500">text number 2500
   continued 2500</div>;
const s2501 = <div title="title number 2501">text number 2501
   continued 2501</div>;
const s2502 = <div title="title number 2502">text number 2502
   continued 2502</div>;
const s2503 = <div title="title number 2503">text number 2503
   continued 2503</div>;
const s2504 = <div title="title number 2504">text number 2504
   continued 2504</div>;
const s2505 = <div title="title number 2505">text number 2505
   continued 2505</div>;
const s2506 = <div title="title number 2506">text number 2506
   continued 2506</div>;
const s2507 = <div title="title number 2507">text number 2507
   continued 2507</div>;
const s2508 = <div title="title number 2508">text number 2508
   continued 2508</div>;
const s2509 = <div title="title number 2509">text number 2509
   continued 2509</div>;
const s2510 = <div title="title number 2510">text number 2510
   continued 2510</div>;
const s2511 = <div title="title number 2511">text number 2511
   continued 2511</div>;
const s2512 = <div title="title number 2512">text number 2512
   continued 2512</div>;
const s2513 = <div title="title number 2513">text number 2513
   continued 2513</div>;
const s2514 = <div title="title number 2514">text number 2514
   continued 2514</div>;
const s2515 = <div title="title number 2515">text number 2515
   continued 2515</div>;
const s2516 = <div title="title number 2516">text number 2516
   continued 2516</div>;
const s2517 = <div title="title number 2517">text number 2517
   continued 2517</div>;
const s2518 = <div title="title number 2518">text number 2518
   continued 2518</div>;
const s2519 = <div title="title number 2519">text number 2519
   continued 2519</div>;
const s2520 = <div title="title number 2520">text number 2520
   continued 2520</div>;
const s2521 = <div title="title number 2521">text number 2521
   continued 2521</div>;
const s2522 = <div title="title number 2522">text number 2522
   continued 2522</div>;
const s2523 = <div title="title number 2523">text number 2523
   continued 2523</div>;
const s2524 = <div title="title number 2524">text number 2524
   continued 2524</div>;
const s2525 = <div title="title number 2525">text number 2525
   continued 2525</div>;
const s2526 = <div title="title number 2526">text number 2526
   continued 2526</div>;
const s2527 = <div title="title number 2527">text number 2527
   continued 2527</div>;
const s2528 = <div title="title number 2528">text number 2528
   continued 2528</div>;
const s2529 = <div title="title number 2529">text number 2529
   continued 2529</div>;
const s2530 = <div title="title number 2530">text number 2530
   continued 2530</div>;
const s2531 = <div title="title number 2531">text number 2531
   continued 2531</div>;
const s2532 = <div title="title number 2532">text number 2532
   continued 2532</div>;
const s2533 = <div title="title number 2533">text number 2533
   continued 2533</div>;
const s2534 = <div title="title number 2534">text number 2534
   continued 2534</div>;
const s2535 = <div title="title number 2535">text number 2535
   continued 2535</div>;
const s2536 = <div title="title number 2536">text number 2536
   continued 2536</div>;
const s2537 = <div title="title number 2537">text number 2537
   continued 2537</div>;
const s2538 = <div title="title number 2538">text number 2538
   continued 2538</div>;
const s2539 = <div title="title number 2539">text number 2539
   continued 2539</div>;
const s2540 = <div title="title number 2540">text number 2540
   continued 2540</div>;
const s2541 = <div title="title number 2541">text number 2541
   continued 2541</div>;
const s2542 = <div title="title number 2542">text number 2542
   continued 2542</div>;
const s2543 = <div title="title number 2543">text number 2543
   continued 2543</div>;
const s2544 = <div title="title number 2544">text number 2544
   continued 2544</div>;
const s2545 = <div title="title number 2545">text number 2545
   continued 2545</div>;
const s2546 = <div title="title number 2546">text number 2546
   continued 2546</div>;
const s2547 = <div title="title number 2547">text number 2547
   continued 2547</div>;
const s2548 = <div title="title number 2548">text number 2548
   continued 2548</div>;
const s2549 = <div title="title number 2549">text number 2549
   continued 2549</div>;
const s2550 = <div title="title number 2550">text number 2550
   continued 2550</div>;
const s2551 = <div title="title number 2551">text number 2551
   continued 2551</div>;
const s2552 = <div title="title number 2552">text number 2552
   continued 2552</div>;
const s2553 = <div title="title number 2553">text number 2553
   continued 2553</div>;
const s2554 = <div title="title number 2554">text number 2554
   continued 2554</div>;
const s2555 = <div title="title number 2555">text number 2555
   continued 2555</div>;
const s2556 = <div title="title number 2556">text number 2556
   continued 2556</div>;
const s2557 = <div title="title number 2557">text number 2557
   continued 2557</div>;
const s2558 = <div title="title number 2558">text number 2558
   continued 2558</div>;
const s2559 = <div title="title number 2559">text number 2559
   continued 2559</div>;
const s2560 = <div title="title number 2560">text number 2560
   continued 2560</div>;
const s2561 = <div title="title number 2561">text number 2561
   continued 2561</div>;
const s2562 = <div title="title number 2562">text number 2562
   continued 2562</div>;
const s2563 = <div title="title number 2563">text number 2563
   continued 2563</div>;
const s2564 = <div title="title number 2564">text number 2564
   continued 2564</div>;
const s2565 = <div title="title number 2565">text number 2565
   continued 2565</div>;
const s2566 = <div title="title number 2566">text number 2566
   continued 2566</div>;
const s2567 = <div title="title number 2567">text number 2567
   continued 2567</div>;
const s2568 = <div title="title number 2568">text number 2568
   continued 2568</div>;
const s2569 = <div title="title number 2569">text number 2569
   continued 2569</div>;
const s2570 = <div title="title number 2570">text number 2570
   continued 2570</div>;
const s2571 = <div title="title number 2571">text number 2571
   continued 2571</div>;
const s2572 = <div title="title number 2572">text number 2572
   continued 2572</div>;
const s2573 = <div title="title number 2573">text number 2573
   continued 2573</div>;
const s2574 = <div title="title number 2574">text number 2574
   continued 2574</div>;
const s2575 = <div title="title number 2575">text number 2575
   continued 2575</div>;
const s2576 = <div title="title number 2576">text number 2576
   continued 2576</div>;
const s2577 = <div title="title number 2577">text number 2577
   continued 2577</div>;
const s2578 = <div title="title number 2578">text number 2578
   continued 2578</div>;
const s2579 = <div title="title number 2579">text number 2579
   continued 2579</div>;
const s2580 = <div title="title number 2580">text number 2580
   continued 2580</div>;
const s2581 = <div title="title number 2581">text number 2581
   continued 2581</div>;
const s2582 = <div title="title number 2582">text number 2582
   continued 2582</div>;
const s2583 = <div title="title number 2583">text number 2583
   continued 2583</div>;
const s2584 = <div title="title number 2584">text number 2584
   continued 2584</div>;
const s2585 = <div title="title number 2585">text number 2585
   continued 2585</div>;
const s2586 = <div title="title number 2586">text number 2586
   continued 2586</div>;
const s2587 = <div title="title number 2587">text number 2587
   continued 2587</div>;
const s2588 = <div title="title number 2588">text number 2588
   continued 2588</div>;
const s2589 = <div title="title number 2589">text number 2589
   continued 2589</div>;
const s2590 = <div title="title number 2590">text number 2590
   continued 2590</div>;
const s2591 = <div title="title number 2591">text number 2591
   continued 2591</div>;
const s2592 = <div title="title number 2592">text number 2592
   continued 2592</div>;
const s2593 = <div title="title number 2593">text number 2593
   continued 2593</div>;
const s2594 = <div title="title number 2594">text number 2594
   continued 2594</div>;
const s2595 = <div title="title number 2595">text number 2595
   continued 2595</div>;
const s2596 = <div title="title number 2596">text number 2596
   continued 2596</div>;
const s2597 = <div title="title number 2597">text number 2597
   continued 2597</div>;
const s2598 = <div title="title number 2598">text number 2598
   continued 2598</div>;
const s2599 = <div title="title number 2599">text number 2599
   continued 2599</div>;
const r0 = <span title="title number 0">text number 0
   continued 0</span>;
const r1 = <span title="title number 1">text number 1
   continued 1</span>;
const r2 = <span title="title number 2">text number 2
   continued 2</span>;
const r3 = <span title="title number 3">text number 3
   continued 3</span>;
const r4 = <span title="title number 4">text number 4
   continued 4</span>;
const r5 = <span title="title number 5">text number 5
   continued 5</span>;
const r6 = <span title="title number 6">text number 6
   continued 6</span>;
const r7 = <span title="title number 7">text number 7
   continued 7</span>;
const r8 = <span title="title number 8">text number 8
   continued 8</span>;
const r9 = <span title="title number 9">text number 9
   continued 9</span>;
const r10 = <span title="title number 10">text number 10
   continued 10</span>;
const r11 = <span title="title number 11">text number 11
   continued 11</span>;
const r12 = <span title="title number 12">text number 12
   continued 12</span>;
const r13 = <span title="title number 13">text number 13
   continued 13</span>;
const r14 = <span title="title number 14">text number 14
   continued 14</span>;
const r15 = <span title="title number 15">text number 15
   continued 15</span>;
const r16 = <span title="title number 16">text number 16
   continued 16</span>;
const r17 = <span title="title number 17">text number 17
   continued 17</span>;
const r18 = <span title="title number 18">text number 18
   continued 18</span>;
const r19 = <span title="title number 19">text number 19
   continued 19</span>;
const r20 = <span title="title number 20">text number 20
   continued 20</span>;
const r21 = <span title="title number 21">text number 21
   continued 21</span>;
const r22 = <span title="title number 22">text number 22
   continued 22</span>;
const r23 = <span title="title number 23">text number 23
   continued 23</span>;
const r24 = <span title="title number 24">text number 24
   continued 24</span>;
const r25 = <span title="title number 25">text number 25
   continued 25</span>;
const r26 = <span title="title number 26">text number 26
   continued 26</span>;
const r27 = <span title="title number 27">text number 27
   continued 27</span>;
const r28 = <span title="title number 28">text number 28
   continued 28</span>;
const r29 = <span title="title number 29">text number 29
   continued 29</span>;
const r30 = <span title="title number 30">text number 30
   continued 30</span>;
const r31 = <span title="title number 31">text number 31
   continued 31</span>;
const r32 = <span title="title number 32">text number 32
   continued 32</span>;
const r33 = <span title="title number 33">text number 33
   continued 33</span>;
const r34 = <span title="title number 34">text number 34
   continued 34</span>;
const r35 = <span title="title number 35">text number 35
   continued 35</span>;
const r36 = <span title="title number 36">text number 36
   continued 36</span>;
const r37 = <span title="title number 37">text number 37
   continued 37</span>;
const r38 = <span title="title number 38">text number 38
   continued 38</span>;
const r39 = <span title="title number 39">text number 39
   continued 39</span>;
