const e = <div {...a}>t</div>;
const c = <Comp {...a}>{k}</Comp>;
