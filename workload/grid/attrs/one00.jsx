const e = <div a=<b/> c=<></>>t</div>;
const c = <Comp a=<b/> c=<></>>{k}</Comp>;
