const e = <div class="a" class={b} class={[c]}>t</div>;
const c = <Comp class="a" class={b} class={[c]}>{k}</Comp>;
