const e = <div nativeOn={o}>t</div>;
const c = <Comp nativeOn={o}>{k}</Comp>;
