const e = <div a="1" a="2">t</div>;
const c = <Comp a="1" a="2">{k}</Comp>;
