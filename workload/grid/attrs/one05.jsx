const e = <div on={o}>t</div>;
const c = <Comp on={o}>{k}</Comp>;
