const e = <div x="1" {...a} y={2}>t</div>;
const c = <Comp x="1" {...a} y={2}>{k}</Comp>;
