const e = <div on={o} on={p} nativeOn={q}>t</div>;
const c = <Comp on={o} on={p} nativeOn={q}>{k}</Comp>;
