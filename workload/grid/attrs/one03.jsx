const e = <div style="a" style={b}>t</div>;
const c = <Comp style="a" style={b}>{k}</Comp>;
