const e = <div {...a} {...b}>t</div>;
const c = <Comp {...a} {...b}>{k}</Comp>;
