const e = <div onClick={a} onClick={b} onUpdate:modelValue={c}>t</div>;
const c = <Comp onClick={a} onClick={b} onUpdate:modelValue={c}>{k}</Comp>;
