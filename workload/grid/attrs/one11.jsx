const e = <div {...{a: 1, b}}>t</div>;
const c = <Comp {...{a: 1, b}}>{k}</Comp>;
