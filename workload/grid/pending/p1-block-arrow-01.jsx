const p1 = <A>{t(1)}</A>;
const r = [() => { return 1; }, <Z>{t(9)}</Z>];
