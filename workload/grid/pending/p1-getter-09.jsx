const p1 = <A>{t(1)}</A>;
const r = [{ get g() { return items.map((i) => { return <I>{f(i)}</I>; }); } }];
