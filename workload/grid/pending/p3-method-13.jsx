const p1 = <A>{t(1)}</A>, p2 = <B>{t(2)}</B>, p3 = <C>{t(3)}</C>;
const r = [{ m() { const a = <I>{f(1)}</I>; return [a, <J>{f(2)}</J>]; } }, <Z>{t(9)}</Z>];
