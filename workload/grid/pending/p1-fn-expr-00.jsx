const p1 = <A>{t(1)}</A>;
const r = [function () { return 1; }];
