const p1 = <A>{t(1)}</A>;
const r = [class { m() { return items.map((i) => i.id); } }, <Y>{t(8)}</Y>, <Z>{t(9)}</Z>];
