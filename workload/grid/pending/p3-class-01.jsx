const p1 = <A>{t(1)}</A>, p2 = <B>{t(2)}</B>, p3 = <C>{t(3)}</C>;
const r = [class { m() { return 1; } }, <Z>{t(9)}</Z>];
