const a = <A>{t('a')}</A>;
const b = <B>{t('b')}</B>;
const render = () => <List>{items.map(item => { return <Item>{format(item)}</Item>; })}</List>;
