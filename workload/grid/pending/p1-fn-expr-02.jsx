const p1 = <A>{t(1)}</A>;
const r = [function () { return 1; }, <Y>{t(8)}</Y>, <Z>{t(9)}</Z>];
