const p1 = <A>{t(1)}</A>;
const r = [() => { return items.map((i) => <I>{f(i)}</I>); }, <Y>{t(8)}</Y>, <Z>{t(9)}</Z>];
