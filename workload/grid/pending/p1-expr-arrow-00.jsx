const p1 = <A>{t(1)}</A>;
const r = [() => wrap(() => { return 1; })];
