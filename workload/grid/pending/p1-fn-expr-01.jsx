const p1 = <A>{t(1)}</A>;
const r = [function () { return 1; }, <Z>{t(9)}</Z>];
