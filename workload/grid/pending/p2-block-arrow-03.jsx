const p1 = <A>{t(1)}</A>;
const p2 = <B>{t(2)}</B>;
const r = [() => { return items.map((i) => i.id); }];
