const p1 = <A>{t(1)}</A>;
const r = [class { m() { return items.map((i) => <I>{f(i)}</I>); } }];
