const p1 = <A>{t(1)}</A>;
const p2 = <B>{t(2)}</B>;
const r = [() => { const a = <I>{f(1)}</I>; return [a, <J>{f(2)}</J>]; }, <Y>{t(8)}</Y>, <Z>{t(9)}</Z>];
