const p1 = <A>{t(1)}</A>, p2 = <B>{t(2)}</B>, p3 = <C>{t(3)}</C>;
const r = [{ get g() { return items.map((i) => { return <I>{f(i)}</I>; }); } }, <Y>{t(8)}</Y>, <Z>{t(9)}</Z>];
