dialog.create({ title: <Title>{t('title')}</Title>, onOk() { return items.map(item => item.id) } });
