const p1 = <A>{t(1)}</A>, p2 = <B>{t(2)}</B>, p3 = <C>{t(3)}</C>;
const r = [() => wrap(() => { return items.map((i) => i.id); }), <Y>{t(8)}</Y>, <Z>{t(9)}</Z>];
