const p1 = <A>{t(1)}</A>;
const r = [function () { const a = <I>{f(1)}</I>; return [a, <J>{f(2)}</J>]; }, <Z>{t(9)}</Z>];
