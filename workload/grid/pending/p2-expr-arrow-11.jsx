const p1 = <A>{t(1)}</A>;
const p2 = <B>{t(2)}</B>;
const r = [() => wrap(() => { return items.map((i) => { return <I>{f(i)}</I>; }); }), <Y>{t(8)}</Y>, <Z>{t(9)}</Z>];
