const p1 = <A>{t(1)}</A>, p2 = <B>{t(2)}</B>, p3 = <C>{t(3)}</C>;
const r = [class { m() { const a = <I>{f(1)}</I>; return [a, <J>{f(2)}</J>]; } }, <Y>{t(8)}</Y>, <Z>{t(9)}</Z>];
