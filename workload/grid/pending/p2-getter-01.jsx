const p1 = <A>{t(1)}</A>;
const p2 = <B>{t(2)}</B>;
const r = [{ get g() { return 1; } }, <Z>{t(9)}</Z>];
