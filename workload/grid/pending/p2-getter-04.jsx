const p1 = <A>{t(1)}</A>;
const p2 = <B>{t(2)}</B>;
const r = [{ get g() { return items.map((i) => i.id); } }, <Z>{t(9)}</Z>];
