const s0 = <x-widget a={v0}>{k0}</x-widget>;
const s1 = <x-button a={v1}>{k1}</x-button>;
const s2 = <my-widget a={v2}>{k2}</my-widget>;
const s3 = <x-w a={v3}>{k3}</x-w>;
const s4 = <widget a={v4}>{k4}</widget>;
const s5 = <xwidget a={v5}>{k5}</xwidget>;
const s6 = <x- a={v6}>{k6}</x->;
const s7 = <idget a={v7}>{k7}</idget>;
