import { defineComponent, SetupContext } from "vue";
type K = 'a' | 'b'; type O = { a: string; b?: number };
interface T extends U { a: 1 } interface U extends T { b: 2 }
const dyn = {};
const C0 = defineComponent((p: T = dyn) => {});
const C1 = defineComponent((p: (T) = dyn) => {});
const C2 = defineComponent((p: T | string = dyn) => {});
const C3 = defineComponent((p: T & { q: 1 } = dyn) => {});
const C4 = defineComponent((p: string | T | T = dyn) => {});
const C5 = defineComponent((p: T[] = dyn) => {});
const C6 = defineComponent((p: [T] = dyn) => {});
const C7 = defineComponent((p: [T?] = dyn) => {});
const C8 = defineComponent((p: Array<T> = dyn) => {});
const C9 = defineComponent((p: T['k'] = dyn) => {});
const C10 = defineComponent((p: T[string] = dyn) => {});
const C11 = defineComponent((p: T[number] = dyn) => {});
