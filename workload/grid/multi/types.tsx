import { defineComponent, SetupContext } from "vue";
interface Props { zeta: string; alpha?: number; mid: boolean; beta: () => void; omega: string[]; gamma: object; delta: Date; eps: null; eta: any; theta: symbol }
type Emits = { (e: 'zeta'): void; (e: 'alpha', v: number): void; (e: 'mid' | 'beta' | 'omega'): void; (e: 'gamma'): void };
type Ev2 = { zeta: []; alpha: [n: number]; mid: []; beta: []; omega: [] };
type U = string | number | boolean | (() => void) | object | any[] | Date | symbol | null | undefined | bigint;
type I = Props & { extra1: U; extra2?: U; extra3: Props['zeta' | 'alpha' | 'mid'] };
const C1 = defineComponent((p: Props) => () => <div>{p.zeta}</div>);
const C2 = defineComponent((p: I, c: SetupContext<Emits>) => {});
const C3 = defineComponent((p: Pick<Props, 'zeta' | 'alpha' | 'mid' | 'beta'> & Omit<Props, 'zeta' | 'eps'>, { emit }: SetupContext<Ev2>) => {});
const C4 = defineComponent((p: { u: U; v?: U; w: 'a' | 1 | true | null; x: Props[keyof Props] }) => {});
const C5 = defineComponent((p: Partial<Props> & Required<{ a?: 1; b?: 2; c?: 3; d?: 4 }>) => {});
const C6 = defineComponent((p: Props = { zeta: 'z', alpha: 1, mid: true, beta() {}, omega: [], gamma: {} }) => {});
const dflt = {};
const C7 = defineComponent((p: Props = dflt) => {});
const C8 = defineComponent((p: I = dflt, c: SetupContext<Emits & Ev2>) => {});
const C9 = defineComponent((p: { a?: string; b?: number; c?: boolean; d?: object } = dflt) => {}, { name: 'Nine', inheritAttrs: false });
