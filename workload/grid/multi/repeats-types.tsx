import { defineComponent, SetupContext } from "vue";
type P = { a: string; b?: number }; type E = { (e: 'x'): void };
const C0 = defineComponent((p: P & { a: P['a'] }, c: SetupContext<E>) => () => <div title="same title">same text</div>);
const C1 = defineComponent((p: P & { a: P['a'] }, c: SetupContext<E>) => () => <div title="same title">same text</div>);
const C2 = defineComponent((p: P & { a: P['a'] }, c: SetupContext<E>) => () => <div title="same title">same text</div>);
const C3 = defineComponent((p: P & { a: P['a'] }, c: SetupContext<E>) => () => <div title="same title">same text</div>);
const C4 = defineComponent((p: P & { a: P['a'] }, c: SetupContext<E>) => () => <div title="same title">same text</div>);
const C5 = defineComponent((p: P & { a: P['a'] }, c: SetupContext<E>) => () => <div title="same title">same text</div>);
