const d1 = <div v-a_m1_m2_m3_m4_m5={x} v-b:arg_z_y_x_w={y} v-c={[z, 'arg', ['q', 'r', 's', 't', 'u']]} />;
const d2 = <input v-model_lazy_trim_number={x} />;
const d3 = <A v-model:foo_a_b_c_d={x} v-model:bar_e_f_g={y} v-models={[[p, 'p1', ['m', 'n', 'o']], [q, 'q1', ['r', 's', 't']], [r, dyn, ['u', 'v', 'w']]]} />;
const d4 = <div v-show={s} v-one={1} v-two={2} v-three={3} v-four={4} v-five={5} />;
const d5 = <Comp v-x={[v, 'a', ['zeta', 'alpha', 'mid', 'beta', 'omega']]} v-model={[m, ['zeta', 'alpha', 'mid', 'beta']]}>{k}</Comp>;
const d6 = <textarea v-model_z_y_x_w_v={t} /> ;
const d7 = <select v-model={[s, ['lazy', 'number', 'trim', 'other']]}><option v-foo_c_b_a /></select>;
const d8 = <input type='checkbox' v-model_a_b_c={c} /> ;
const d9 = <input type={t} v-model={[d, ['p', 'q', 'r', 's']]} v-models={[[e, ['x', 'y', 'z']], [f, 'g', ['h', 'i', 'j']]]} />;
