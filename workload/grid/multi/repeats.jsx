const a0 = <div title="same title" class="box">same text
   continued</div>;
const b0 = <x-rep v-custom:arg_m={v} a="same title">same text</x-rep>;
const c0 = <Comp v-model:val_trim={m} label="same title">{k}same text</Comp>;
const a1 = <div title="same title" class="box">same text
   continued</div>;
const b1 = <x-rep v-custom:arg_m={v} a="same title">same text</x-rep>;
const c1 = <Comp v-model:val_trim={m} label="same title">{k}same text</Comp>;
const a2 = <div title="same title" class="box">same text
   continued</div>;
const b2 = <x-rep v-custom:arg_m={v} a="same title">same text</x-rep>;
const c2 = <Comp v-model:val_trim={m} label="same title">{k}same text</Comp>;
const a3 = <div title="same title" class="box">same text
   continued</div>;
const b3 = <x-rep v-custom:arg_m={v} a="same title">same text</x-rep>;
const c3 = <Comp v-model:val_trim={m} label="same title">{k}same text</Comp>;
const a4 = <div title="same title" class="box">same text
   continued</div>;
const b4 = <x-rep v-custom:arg_m={v} a="same title">same text</x-rep>;
const c4 = <Comp v-model:val_trim={m} label="same title">{k}same text</Comp>;
const a5 = <div title="same title" class="box">same text
   continued</div>;
const b5 = <x-rep v-custom:arg_m={v} a="same title">same text</x-rep>;
const c5 = <Comp v-model:val_trim={m} label="same title">{k}same text</Comp>;
