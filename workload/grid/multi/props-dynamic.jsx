const a1 = <div id={a} title={b} alt={c} lang={d} dir={e} role={f} tabindex={g} />;
const a2 = <Comp zeta={a} alpha={b} mid={c} beta={d} omega={e} gamma={f}>{k}</Comp>;
const a3 = <div onClick={a} onFocus={b} onBlur={c} onKeydown={d} onInput={e} id={i} />;
const a4 = <div data-a={a} data-b={b} aria-x={c} aria-y={d} z={z} y={y} x={x} w={w} />;
const a5 = <Comp onUpdate:a={a} onUpdate:b={b} onUpdate:c={c} modelValue={m} p={p} q={q} />;
const a6 = <div a={a} b='s' c={c} d={1} e={e} f={null} g={g} h i={i} />;
