const c1 = <div class='a' class={b} class={[c]} class={{ d }} style={s1} style={s2} style='s3' />;
const c2 = <div onClick={a} onClick={b} onClick={c} onFocus={d} onFocus={e} onBlur={f} />;
const c3 = <Comp class='a' {...x} class={b} {...y} style={s} onClick={a} {...z} onClick={b} />;
const c4 = <div {...x} class='a' {...y} class='b' {...z} class='c' />;
const c5 = <div key='k' ref={r} class={c} style={s} id='i' onClick={f} {...rest} key={k2} ref='r2' />;
