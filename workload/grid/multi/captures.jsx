let foo, bar, baz, qux, quux;
foo = 0; bar = 0; baz = 0; qux = 0; quux = 0;
foo = <Foo>{foo}</Foo>;
bar = <Bar>{bar}</Bar>;
baz = <Baz>{baz}</Baz>;
qux = <Qux>{qux}</Qux>;
quux = <Quux>{quux}</Quux>;
function inner() { let a, b, c, d; a = <A>{a}</A>; b = <B>{b}</B>; c = <C>{c}</C>; d = <D>{d}</D>; return [a, b, c, d]; }
const arrow = () => { let p, q, r, s; p = <P>{p}</P>; q = <Q>{q}</Q>; r = <R>{r}</R>; s = <S>{s}</S>; };
{ let m, n, o; m = <M>{m}</M>; n = <N>{n}</N>; o = <O>{o}</O>; }
