import { defineComponent, SetupContext } from "vue";
interface P0 { a0: string; b0?: number; c0: boolean; d0: () => void }
interface P1 { a1: string; b1?: number; c1: boolean; d1: () => void }
interface P2 { a2: string; b2?: number; c2: boolean; d2: () => void }
interface P3 { a3: string; b3?: number; c3: boolean; d3: () => void }
interface P4 { a4: string; b4?: number; c4: boolean; d4: () => void }
interface P5 { a5: string; b5?: number; c5: boolean; d5: () => void }
const K0 = defineComponent((p: P0 & P1 = dyn0, c: SetupContext<{ (e: 'x0' | 'y0' | 'z0'): void }>) => () => <div v-show={p.c0}>{p.a0}</div>);
const K1 = defineComponent((p: P1 & P2 = dyn1, c: SetupContext<{ (e: 'x1' | 'y1' | 'z1'): void }>) => () => <div v-show={p.c1}>{p.a1}</div>);
const K2 = defineComponent((p: P2 & P3 = dyn2, c: SetupContext<{ (e: 'x2' | 'y2' | 'z2'): void }>) => () => <div v-show={p.c2}>{p.a2}</div>);
const K3 = defineComponent((p: P3 & P4 = dyn3, c: SetupContext<{ (e: 'x3' | 'y3' | 'z3'): void }>) => () => <div v-show={p.c3}>{p.a3}</div>);
const K4 = defineComponent((p: P4 & P5 = dyn4, c: SetupContext<{ (e: 'x4' | 'y4' | 'z4'): void }>) => () => <div v-show={p.c4}>{p.a4}</div>);
const K5 = defineComponent((p: P5 & P0 = dyn5, c: SetupContext<{ (e: 'x5' | 'y5' | 'z5'): void }>) => () => <div v-show={p.c5}>{p.a5}</div>);
const dyn0 = {};
const dyn1 = {};
const dyn2 = {};
const dyn3 = {};
const dyn4 = {};
const dyn5 = {};
