const l1 = <A v-slots={{ a: () => 1, b: () => 2, c, d, e }}>{{ x: () => 1, y: () => 2, z: () => 3 }}</A>;
const l2 = <A>{{ default: () => [<b />], header: () => <h />, footer, extra, more }}</A>;
const l3 = <A v-slots={{ zeta, alpha, mid, beta, omega }}><B>{f()}</B><C>{g()}</C><D>{h()}</D><E>{i()}</E></A>;
const l4 = <A>{a()}{b()}{c()}{d()}{e()}</A>;
const l5 = <A><B>{s1}</B><C>{s2}</C><D>{s3}</D><E>{s4}</E><F>{s5}</F></A>;
function fl() { return <A><B>{t1()}</B><C>{t2()}</C><D>{t3()}</D><E>{t4()}</E></A>; }
const al = () => <A><B>{u1()}</B><C>{u2()}</C><D>{u3()}</D><E>{u4()}</E></A>;
