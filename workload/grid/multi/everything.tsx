import { defineComponent, SetupContext } from "vue";
import { KeepAlive } from 'vue';
interface P { zeta: string; alpha?: number; mid: boolean; beta: () => void }
let cap1, cap2, cap3; cap1 = <A>{cap1}</A>; cap2 = <B>{cap2}</B>; cap3 = <C>{cap3}</C>;
export default defineComponent((p: P = dflt, { emit }: SetupContext<{ (e: 'q' | 'r' | 's' | 't'): void }>) => () => (
  <KeepAlive><div id={p.zeta} title={p.alpha} {...{ lang: l, dir: d, role: r }} v-show={p.mid} v-dir_a_b_c_d={x} onClick={h1} onClick={h2}>
    <Comp v-model:foo_m1_m2_m3={m} v-slots={{ s1, s2, s3, s4 }}>{f()}</Comp><Comp>{g()}</Comp><Comp>{h()}</Comp><x-el a={a} b={b} c={c} d={d}>{k}</x-el>
  </div></KeepAlive>));
const dflt = {};
