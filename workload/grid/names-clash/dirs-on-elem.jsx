const d0 = <input v-model:value_trim={x} />
const d1 = <input v-model_lazy_number={x} />
const d2 = <input vModel:foo_bar={x} />
const d3 = <input v-custom:arg_m1_m2={x} />
const d4 = <input v-model:value_trim_lazy={x} />
const d5 = <input v-show_x={x} />
const d6 = <input v-models={[[x, 'value_trim'], [y, 'foo_a_b']]} />
