import { defineComponent, SetupContext } from "vue";
type Size = boolean;
type Size2 = 'two' | 'deux';
type Other = { x: string; y?: Size };
interface Model { value: Date; label?: string }
type BaseEv = { (e: 'base'): void };
type Ev = (e: 'open' | 'close') => void;
enum Kind { A = 1, B = 'b' }
type Base = { other: string[] };
type Extra = { base: symbol };
const C = defineComponent((p: { size: Size; model: Model; m: Model['value']; k?: Kind; o: Other }, c: SetupContext<Ev>) => () => <div class={p.size}>{p.m}</div>);
const D = defineComponent((p: Base & Extra) => {});
const E = defineComponent(({ size = undefined, model }: { size?: Size; model?: Model } ) => {});
function scoped() { type Size = Model; return defineComponent((p: { size: Size; again: Other['y'] }) => {}); }
const bad = <input v-model="value" />;
const F = defineComponent((p: Size extends string ? Base : Extra) => {});
const tail = <Comp v-slots={s}>{k}</Comp>;
