const d0 = <Comp v-model:value_trim={x} />
const d1 = <Comp v-model_lazy_number={x} />
const d2 = <Comp vModel:foo_bar={x} />
const d3 = <Comp v-custom:arg_m1_m2={x} />
const d4 = <Comp v-model:value_trim_lazy={x} />
const d5 = <Comp v-show_x={x} />
const d6 = <Comp v-models={[[x, 'value_trim'], [y, 'foo_a_b']]} />
