const d0 = <x-foo v-model:value_trim={x} ></x-foo>
const d1 = <x-foo v-model_lazy_number={x} ></x-foo>
const d2 = <x-foo vModel:foo_bar={x} ></x-foo>
const d3 = <x-foo v-custom:arg_m1_m2={x} ></x-foo>
const d4 = <x-foo v-model:value_trim_lazy={x} ></x-foo>
const d5 = <x-foo v-show_x={x} ></x-foo>
const d6 = <x-foo v-models={[[x, 'value_trim'], [y, 'foo_a_b']]} ></x-foo>
