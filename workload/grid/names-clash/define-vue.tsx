import { defineComponent, type SetupContext } from 'vue';
interface Props { a: string; b?: number }
type Ev = { (e: 'go'): void };
export const A = defineComponent((p: Props, c: SetupContext<Ev>) => () => <div>{p.a}</div>);
export const B = defineComponent((p: Props = { a: 'x' }) => {});
function inner(defineComponent: any) { return defineComponent((p: Props) => {}); }
export default defineComponent((p: { inline: boolean }) => {}, { name: 'N' });
