import { defineComponent, SetupContext } from "vue";
type Size = string[];
type Size2 = 'two' | 'deux';
type Other = { x: string; y?: Size };
interface Model { value: boolean | null; label?: string }
type BaseEv = { (e: 'base'): void };
type Ev = { close: []; pick: [id: number] };
enum Kind { Z }
type Base = Record<string, number>;
type Extra = {};
const C = defineComponent((p: { size: Size; model: Model; m: Model['value']; k?: Kind; o: Other }, c: SetupContext<Ev>) => () => <div class={p.size}>{p.m}</div>);
const D = defineComponent((p: Base & Extra) => {});
const E = defineComponent(({ size = undefined, model }: { size?: Size; model?: Model } ) => {});
function scoped() { type Size = Model; return defineComponent((p: { size: Size; again: Other['y'] }) => {}); }
const bad = <input v-model="value" />;
const F = defineComponent((p: Size extends string ? Base : Extra) => {});
const tail = <Comp v-slots={s}>{k}</Comp>;
