const d0 = <A.b v-model:value_trim={x} />
const d1 = <A.b v-model_lazy_number={x} />
const d2 = <A.b vModel:foo_bar={x} />
const d3 = <A.b v-custom:arg_m1_m2={x} />
const d4 = <A.b v-model:value_trim_lazy={x} />
const d5 = <A.b v-show_x={x} />
const d6 = <A.b v-models={[[x, 'value_trim'], [y, 'foo_a_b']]} />
