// nothing is declared or imported here
const a = <Comp>{foo}</Comp>;
const b = <Comp>{foo()}</Comp>;
const c = <Fragment><Comp a={foo} /></Fragment>;
const d = <KeepAlive><Comp>{bar}</Comp></KeepAlive>;
const e = <><Comp v-slots={foo}>{foo}</Comp></>;
const f = () => <Comp>{foo}{bar}</Comp>;
foo = <Comp>{foo}</Comp>;
const g = <x-comp><comp>{foo}</comp></x-comp>;
const bad = <div v-html />;
const h = <Comp>{() => foo}</Comp>;
