const a = <div v-custom={x}></div>;
const b = <A v-custom={x}>{kid}</A>;
