const a = <div v-html="x"></div>;
const b = <A v-html="x">{kid}</A>;
