const a = <div v-show=<b/>></div>;
const b = <A v-show=<b/>>{kid}</A>;
