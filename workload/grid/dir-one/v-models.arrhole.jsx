const a = <div v-models={[,]}></div>;
const b = <A v-models={[,]}>{kid}</A>;
