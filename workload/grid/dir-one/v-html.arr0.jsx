const a = <div v-html={[]}></div>;
const b = <A v-html={[]}>{kid}</A>;
