const a = <div v-html=<b/>></div>;
const b = <A v-html=<b/>>{kid}</A>;
