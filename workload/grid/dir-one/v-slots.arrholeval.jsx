const a = <div v-slots={[, "a", ["m"]]}></div>;
const b = <A v-slots={[, "a", ["m"]]}>{kid}</A>;
