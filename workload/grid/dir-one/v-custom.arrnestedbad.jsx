const a = <div v-custom={[[], [,], ...y, 1, [[w]]]}></div>;
const b = <A v-custom={[[], [,], ...y, 1, [[w]]]}>{kid}</A>;
