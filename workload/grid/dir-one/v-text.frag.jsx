const a = <div v-text=<></>></div>;
const b = <A v-text=<></>>{kid}</A>;
