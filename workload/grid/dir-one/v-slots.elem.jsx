const a = <div v-slots=<b/>></div>;
const b = <A v-slots=<b/>>{kid}</A>;
