const a = <div v-slots={[[], [,], ...y, 1, [[w]]]}></div>;
const b = <A v-slots={[[], [,], ...y, 1, [[w]]]}>{kid}</A>;
