const a = <div v-text={[[], [,], ...y, 1, [[w]]]}></div>;
const b = <A v-text={[[], [,], ...y, 1, [[w]]]}>{kid}</A>;
