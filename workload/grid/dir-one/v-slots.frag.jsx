const a = <div v-slots=<></>></div>;
const b = <A v-slots=<></>>{kid}</A>;
