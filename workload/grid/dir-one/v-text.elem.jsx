const a = <div v-text=<b/>></div>;
const b = <A v-text=<b/>>{kid}</A>;
