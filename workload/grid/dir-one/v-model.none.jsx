const a = <div v-model></div>;
const b = <A v-model>{kid}</A>;
