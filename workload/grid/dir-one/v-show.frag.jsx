const a = <div v-show=<></>></div>;
const b = <A v-show=<></>>{kid}</A>;
