const a = <div v-model={[[], [,], ...y, 1, [[w]]]}></div>;
const b = <A v-model={[[], [,], ...y, 1, [[w]]]}>{kid}</A>;
