const a = <div v-show={[[], [,], ...y, 1, [[w]]]}></div>;
const b = <A v-show={[[], [,], ...y, 1, [[w]]]}>{kid}</A>;
