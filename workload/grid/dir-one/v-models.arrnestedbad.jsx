const a = <div v-models={[[], [,], ...y, 1, [[w]]]}></div>;
const b = <A v-models={[[], [,], ...y, 1, [[w]]]}>{kid}</A>;
