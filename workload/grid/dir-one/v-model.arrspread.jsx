const a = <div v-model={[...x]}></div>;
const b = <A v-model={[...x]}>{kid}</A>;
