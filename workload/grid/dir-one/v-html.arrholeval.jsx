const a = <div v-html={[, "a", ["m"]]}></div>;
const b = <A v-html={[, "a", ["m"]]}>{kid}</A>;
