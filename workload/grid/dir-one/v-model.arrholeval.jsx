const a = <div v-model={[, "a", ["m"]]}></div>;
const b = <A v-model={[, "a", ["m"]]}>{kid}</A>;
