const a = <div v-model=<b/>></div>;
const b = <A v-model=<b/>>{kid}</A>;
