const a = <div v-models=<b/>></div>;
const b = <A v-models=<b/>>{kid}</A>;
