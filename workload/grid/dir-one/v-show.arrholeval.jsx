const a = <div v-show={[, "a", ["m"]]}></div>;
const b = <A v-show={[, "a", ["m"]]}>{kid}</A>;
