const a = <div v-text="x"></div>;
const b = <A v-text="x">{kid}</A>;
