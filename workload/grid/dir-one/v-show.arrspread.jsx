const a = <div v-show={[...x]}></div>;
const b = <A v-show={[...x]}>{kid}</A>;
