const a = <div v-custom={[, "a", ["m"]]}></div>;
const b = <A v-custom={[, "a", ["m"]]}>{kid}</A>;
