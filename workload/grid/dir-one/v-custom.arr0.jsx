const a = <div v-custom={[]}></div>;
const b = <A v-custom={[]}>{kid}</A>;
