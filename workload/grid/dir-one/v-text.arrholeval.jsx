const a = <div v-text={[, "a", ["m"]]}></div>;
const b = <A v-text={[, "a", ["m"]]}>{kid}</A>;
