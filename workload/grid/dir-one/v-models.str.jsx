const a = <div v-models="x"></div>;
const b = <A v-models="x">{kid}</A>;
