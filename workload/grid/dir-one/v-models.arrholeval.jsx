const a = <div v-models={[, "a", ["m"]]}></div>;
const b = <A v-models={[, "a", ["m"]]}>{kid}</A>;
