const a = <div v-custom=<b/>></div>;
const b = <A v-custom=<b/>>{kid}</A>;
