const a = <div v-html={[[], [,], ...y, 1, [[w]]]}></div>;
const b = <A v-html={[[], [,], ...y, 1, [[w]]]}>{kid}</A>;
