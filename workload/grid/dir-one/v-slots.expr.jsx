const a = <div v-slots={x}></div>;
const b = <A v-slots={x}>{kid}</A>;
