import { defineComponent, SetupContext } from "vue";
interface Props { level0: string } type Emits = { (e: 'l0'): void };
const C0 = defineComponent((p: Props, c: SetupContext<Emits>) => {});
function one() { interface Props { level1: number } type Emits = { (e: 'l1'): void }; const C1 = defineComponent((p: Props, c: SetupContext<Emits>) => {});
  function two() { interface Props { level2: boolean } const C2 = defineComponent((p: Props, c: SetupContext<Emits>) => {});
    { interface Props { level3: Date } const C3 = defineComponent((p: Props) => {}); }
    return () => { type Props = { level4: symbol }; return defineComponent((p: Props) => {}); }; }
  return two; }
namespace N { export interface Props { inNs: string } export const C = defineComponent((p: Props) => {}); }
class K { m() { interface Props { inMethod: string } return defineComponent((p: Props) => {}); } }
const after = defineComponent((p: Props) => {});
