import { defineComponent, SetupContext } from "vue";
declare global { interface Props { g: string } type Ev = { (e: 'g'): void }; type Size = 'global' }
function one() { interface Props { one: number } type Ev = { (e: 'one'): void }; type Size = 1; return defineComponent((p: Props, c: SetupContext<Ev>) => {}); }
function two() { interface Props { two: boolean; size: Size } type Size = 2; }
const three = () => { interface Props { three: Date } type Ev = (e: 'three') => void; };
{ interface Props { block: symbol } type Size = 'block'; }
class K { m() { interface Props { inMethod: string } type Ev = { inMethod: [] }; } }
namespace N { export interface Props { inNs: string } export type Size = 'ns'; }
if (cond) { type Props = { inIf: bigint }; }
const C = defineComponent((p: Props, c: SetupContext<Ev>) => {});
const D = defineComponent((p: Pick<Props, 'g' | 'one' | 'two'> & Partial<Props>) => {});
const E = defineComponent((p: { a: Props['one']; b: Props['g']; s: Size }) => {});
const F = defineComponent((p: Props & { extra: Size }) => {});
interface Bound extends Props { own: string }
const G = defineComponent((p: Bound) => {});
