import { defineComponent, SetupContext } from "vue";
namespace Button { export interface Props { label: string; size?: number } export type Emits = { (e: 'press'): void } }
namespace Dialog { export interface Props { title: string; open: boolean } export type Emits = { (e: 'close'): void } }
namespace Outer { export namespace Inner { export interface Props { deep: string } } export interface Props { shallow: number } }
interface Props { top: boolean }
const B = defineComponent((p: Button.Props, c: SetupContext<Button.Emits>) => {});
const D = defineComponent((p: Dialog.Props, c: SetupContext<Dialog.Emits>) => {});
const O = defineComponent((p: Outer.Props) => {});
const I = defineComponent((p: Outer.Inner.Props) => {});
const T = defineComponent((p: Props) => {});
const M = defineComponent((p: Button.Props & Dialog.Props & Props) => {});
const X = defineComponent((p: { a: Button.Props['label']; b: Dialog.Props['open'] }) => {});
const P = defineComponent((p: Pick<Button.Props, 'label'> & Partial<Dialog.Props>) => {});
