import { defineComponent, SetupContext } from "vue";
namespace Foo { export interface Props { label: string } export type Ev = { (e: 'a'): void }; export type Size = 'foo-1' }
namespace Foo { export interface Props { size: number } export type Ev2 = { (e: 'b'): void }; export namespace Inner { export interface Props { deep1: string } } }
namespace Foo { export interface Props { third: boolean } export namespace Inner { export interface Props { deep2: number } } }
declare module 'm' { export interface Props { fromModule: string } }
declare module 'm' { export interface Props { fromModule2: string } }
declare global { namespace G { interface Props { g1: string } } }
declare global { namespace G { interface Props { g2: string } } }
enum E { A = 'a' } enum E { B = 'b' }
class K { a = 1 } interface K { b: string } namespace K { export interface Props { k: 1 } }
const C = defineComponent((p: Foo.Props, c: SetupContext<Foo.Ev>) => {});
const D = defineComponent((p: Foo.Inner.Props & Foo.Props) => {});
const F = defineComponent((p: { a: Foo.Props['label']; b: Foo.Size; c: G.Props; d: K.Props; e: E; f: K }) => {});
const H = defineComponent((p: Pick<Foo.Props, 'label' | 'size'> & Partial<Foo.Inner.Props>, c: SetupContext<Foo.Ev & Foo.Ev2>) => {});
