const e0 = <div>text</div>;
const c0 = <Comp>text</Comp>;
const f0 = <>text</>;
const e1 = <div> lead</div>;
const c1 = <Comp> lead</Comp>;
const f1 = <> lead</>;
const e2 = <div>trail </div>;
const c2 = <Comp>trail </Comp>;
const f2 = <>trail </>;
const e3 = <div>  both  </div>;
const c3 = <Comp>  both  </Comp>;
const f3 = <>  both  </>;
const e4 = <div>a
   b
  c</div>;
const c4 = <Comp>a
   b
  c</Comp>;
const f4 = <>a
   b
  c</>;
const e5 = <div>
  
</div>;
const c5 = <Comp>
  
</Comp>;
const f5 = <>
  
</>;
const e6 = <div>&amp;&nbsp;&#x41;</div>;
const c6 = <Comp>&amp;&nbsp;&#x41;</Comp>;
const f6 = <>&amp;&nbsp;&#x41;</>;
const e7 = <div>{}</div>;
const c7 = <Comp>{}</Comp>;
const f7 = <>{}</>;
const e8 = <div>{/* c */}</div>;
const c8 = <Comp>{/* c */}</Comp>;
const f8 = <>{/* c */}</>;
const e9 = <div>{x}</div>;
const c9 = <Comp>{x}</Comp>;
const f9 = <>{x}</>;
const e10 = <div>{...x}</div>;
const c10 = <Comp>{...x}</Comp>;
const f10 = <>{...x}</>;
const e11 = <div>{x}{y}</div>;
const c11 = <Comp>{x}{y}</Comp>;
const f11 = <>{x}{y}</>;
const e12 = <div>{f()}</div>;
const c12 = <Comp>{f()}</Comp>;
const f12 = <>{f()}</>;
const e13 = <div>{a.b}</div>;
const c13 = <Comp>{a.b}</Comp>;
const f13 = <>{a.b}</>;
const e14 = <div>{() => 1}</div>;
const c14 = <Comp>{() => 1}</Comp>;
const f14 = <>{() => 1}</>;
const e15 = <div>{function () {}}</div>;
const c15 = <Comp>{function () {}}</Comp>;
const f15 = <>{function () {}}</>;
const e16 = <div>{{a: 1}}</div>;
const c16 = <Comp>{{a: 1}}</Comp>;
const f16 = <>{{a: 1}}</>;
const e17 = <div>{{}}</div>;
const c17 = <Comp>{{}}</Comp>;
const f17 = <>{{}}</>;
const e18 = <div>{[1, 2]}</div>;
const c18 = <Comp>{[1, 2]}</Comp>;
const f18 = <>{[1, 2]}</>;
const e19 = <div>{`t`}</div>;
const c19 = <Comp>{`t`}</Comp>;
const f19 = <>{`t`}</>;
const e20 = <div>{1}</div>;
const c20 = <Comp>{1}</Comp>;
const f20 = <>{1}</>;
const e21 = <div>{null}</div>;
const c21 = <Comp>{null}</Comp>;
const f21 = <>{null}</>;
const e22 = <div>{cond ? <a/> : <b/>}</div>;
const c22 = <Comp>{cond ? <a/> : <b/>}</Comp>;
const f22 = <>{cond ? <a/> : <b/>}</>;
const e23 = <div>{list.map(i => <li>{i}</li>)}</div>;
const c23 = <Comp>{list.map(i => <li>{i}</li>)}</Comp>;
const f23 = <>{list.map(i => <li>{i}</li>)}</>;
const e24 = <div><b/></div>;
const c24 = <Comp><b/></Comp>;
const f24 = <><b/></>;
const e25 = <div><></></div>;
const c25 = <Comp><></></Comp>;
const f25 = <><></></>;
const e26 = <div><>t</></div>;
const c26 = <Comp><>t</></Comp>;
const f26 = <><>t</></>;
const e27 = <div><B>{z}</B></div>;
const c27 = <Comp><B>{z}</B></Comp>;
const f27 = <><B>{z}</B></>;
const e28 = <div>t{x}t</div>;
const c28 = <Comp>t{x}t</Comp>;
const f28 = <>t{x}t</>;
const e29 = <div>{x} {y}</div>;
const c29 = <Comp>{x} {y}</Comp>;
const f29 = <>{x} {y}</>;
const e30 = <div><b/>{x}<c/></div>;
const c30 = <Comp><b/>{x}<c/></Comp>;
const f30 = <><b/>{x}<c/></>;
const e31 = <div>{<b/>}</div>;
const c31 = <Comp>{<b/>}</Comp>;
const f31 = <>{<b/>}</>;
const e32 = <div>{<></>}</div>;
const c32 = <Comp>{<></>}</Comp>;
const f32 = <>{<></>}</>;
