const e = <div>{}</div>;
const c = <Comp>{}</Comp>;
const d = <A.b v-slots={s}>{}</A.b>;
