const e = <div>{() => 1}</div>;
const c = <Comp>{() => 1}</Comp>;
const d = <A.b v-slots={s}>{() => 1}</A.b>;
