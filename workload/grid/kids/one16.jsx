const e = <div>{{a: 1}}</div>;
const c = <Comp>{{a: 1}}</Comp>;
const d = <A.b v-slots={s}>{{a: 1}}</A.b>;
