const e = <div><B>{z}</B></div>;
const c = <Comp><B>{z}</B></Comp>;
const d = <A.b v-slots={s}><B>{z}</B></A.b>;
