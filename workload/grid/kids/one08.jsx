const e = <div>{/* c */}</div>;
const c = <Comp>{/* c */}</Comp>;
const d = <A.b v-slots={s}>{/* c */}</A.b>;
