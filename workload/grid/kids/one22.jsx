const e = <div>{cond ? <a/> : <b/>}</div>;
const c = <Comp>{cond ? <a/> : <b/>}</Comp>;
const d = <A.b v-slots={s}>{cond ? <a/> : <b/>}</A.b>;
