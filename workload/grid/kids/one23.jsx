const e = <div>{list.map(i => <li>{i}</li>)}</div>;
const c = <Comp>{list.map(i => <li>{i}</li>)}</Comp>;
const d = <A.b v-slots={s}>{list.map(i => <li>{i}</li>)}</A.b>;
