const e = <div>{f()}</div>;
const c = <Comp>{f()}</Comp>;
const d = <A.b v-slots={s}>{f()}</A.b>;
