const e = <div>{...x}</div>;
const c = <Comp>{...x}</Comp>;
const d = <A.b v-slots={s}>{...x}</A.b>;
