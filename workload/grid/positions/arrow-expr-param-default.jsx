const f = (a = <A>{foo()}</A>) => a;
