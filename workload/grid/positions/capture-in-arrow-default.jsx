x = 0; const f = (p = (x = <B>{x}</B>)) => { return p; };
