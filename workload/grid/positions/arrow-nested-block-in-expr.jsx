const pre = <A>{foo()}</A>; const f = () => <L>{items.map((i) => { return <I>{fmt(i)}</I>; })}</L>;
