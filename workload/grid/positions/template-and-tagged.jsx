const t = `a${<A>{foo()}</A>}b${<A>{foo()}</A>}`; const u = tag`x${<A>{foo()}</A>}`;
