outer: { const a = <A>{foo()}</A>; inner: for (;;) { const b = <A>{foo()}</A>; break outer; } } { { const c = <A>{foo()}</A>; } }
