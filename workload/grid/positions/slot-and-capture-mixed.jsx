x = 0; const f = (a = <A>{foo()}</A>, b = (x = <B>{x}</B>)) => { const c = <A>{foo()}</A>; return () => (x = <B>{x}</B>); };
