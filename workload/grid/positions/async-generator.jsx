async function* g(a = <A>{foo()}</A>) { yield <A>{foo()}</A>; const r = await <A>{foo()}</A>; yield* [<A>{foo()}</A>]; return r; }
