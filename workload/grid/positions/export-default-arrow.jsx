export default (a = <A>{foo()}</A>) => { return <A>{foo()}</A>; };
