const o = { m(a = <A>{foo()}</A>) { return a; }, get g() { return <A>{foo()}</A>; }, set s(v = <A>{foo()}</A>) {} };
