const r = (() => { const a = <A>{foo()}</A>; return (function () { return <A>{foo()}</A>; })(); })(); (function (a = <A>{foo()}</A>) {})();
