const f = ({ a = <A>{foo()}</A>, b: [c = <A>{foo()}</A>] }) => { return a; };
