export default <A>{foo()}</A>;
