const f = (a = <A>{foo()}</A>) => a;
const f = (a = <A>{foo()}</A>) => { return a; };
const f = (a = <A>{foo()}</A>, b = <A>{foo()}</A>) => { const c = <A>{foo()}</A>; return [a, b, c]; };
const f = ({ a = <A>{foo()}</A>, b: [c = <A>{foo()}</A>] }) => { return a; };
const pre = <A>{foo()}</A>; const f = () => <L>{items.map((i) => { return <I>{fmt(i)}</I>; })}</L>;
function f(a = <A>{foo()}</A>, { b = <A>{foo()}</A> } = {}) { return a; }
const f = function (a = <A>{foo()}</A>) { return <A>{foo()}</A>; };
const o = { m(a = <A>{foo()}</A>) { return a; }, get g() { return <A>{foo()}</A>; }, set s(v = <A>{foo()}</A>) {} };
class K { f = <A>{foo()}</A>; static s = <A>{foo()}</A>; #p = <A>{foo()}</A>; m(a = <A>{foo()}</A>) { return <A>{foo()}</A>; } static { init(<A>{foo()}</A>); } constructor(a = <A>{foo()}</A>) { this.a = a; } }
class K extends mix(<A>{foo()}</A>) { m() { return <A>{foo()}</A>; } }
async function* g(a = <A>{foo()}</A>) { yield <A>{foo()}</A>; const r = await <A>{foo()}</A>; yield* [<A>{foo()}</A>]; return r; }
const t = `a${<A>{foo()}</A>}b${<A>{foo()}</A>}`; const u = tag`x${<A>{foo()}</A>}`;
if (<A>{foo()}</A>) { r = <A>{foo()}</A>; } else r = <A>{foo()}</A>; while (cond(<A>{foo()}</A>)) { break; } do { r = <A>{foo()}</A>; } while (cond(<A>{foo()}</A>)); for (let i = <A>{foo()}</A>; i < n(<A>{foo()}</A>); i = next(<A>{foo()}</A>)) { r = <A>{foo()}</A>; } for (const k in obj(<A>{foo()}</A>)) { r = <A>{foo()}</A>; } for (const v of list(<A>{foo()}</A>)) r = <A>{foo()}</A>;
switch (sel(<A>{foo()}</A>)) { case key(<A>{foo()}</A>): r = <A>{foo()}</A>; break; default: r = <A>{foo()}</A>; } try { throw <A>{foo()}</A>; } catch (e) { r = <A>{foo()}</A>; } finally { r = <A>{foo()}</A>; }
const o1 = cond ? <A>{foo()}</A> : <A>{foo()}</A>; const o2 = a && <A>{foo()}</A> || <A>{foo()}</A>; const o3 = a ?? <A>{foo()}</A>; const o4 = (<A>{foo()}</A>, <A>{foo()}</A>); const o5 = [<A>{foo()}</A>, ...[<A>{foo()}</A>]]; const o6 = { a: <A>{foo()}</A>, ...spread(<A>{foo()}</A>), b: [<A>{foo()}</A>] }; const o7 = fn(<A>{foo()}</A>)?.m(<A>{foo()}</A>); const o8 = new K(<A>{foo()}</A>); const o9 = typeof <A>{foo()}</A>; r ??= <A>{foo()}</A>; r ||= <A>{foo()}</A>;
outer: { const a = <A>{foo()}</A>; inner: for (;;) { const b = <A>{foo()}</A>; break outer; } } { { const c = <A>{foo()}</A>; } }
const r = (() => { const a = <A>{foo()}</A>; return (function () { return <A>{foo()}</A>; })(); })(); (function (a = <A>{foo()}</A>) {})();
x = 0; const f = (p = (x = <B>{x}</B>)) => { return p; };
x = 1; function f() { x = <B>{x}</B>; return () => { x = <B>{x}</B>; return (q = (x = <B>{x}</B>)) => q; }; }
x = 1; y = 2; const v = <C>{x}</C>; const w = <C>{y}</C>; y = <C>{y}</C>; x = <C>{y}</C>;
x = 0; const f = (a = <A>{foo()}</A>, b = (x = <B>{x}</B>)) => { const c = <A>{foo()}</A>; return () => (x = <B>{x}</B>); };
