x = 1; y = 2; const v = <C>{x}</C>; const w = <C>{y}</C>; y = <C>{y}</C>; x = <C>{y}</C>;
