const f = function (a = <A>{foo()}</A>) { return <A>{foo()}</A>; };
