const f = (a = <A>{foo()}</A>) => { return a; };
