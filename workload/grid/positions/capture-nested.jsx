x = 1; function f() { x = <B>{x}</B>; return () => { x = <B>{x}</B>; return (q = (x = <B>{x}</B>)) => q; }; }
