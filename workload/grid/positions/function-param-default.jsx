function f(a = <A>{foo()}</A>, { b = <A>{foo()}</A> } = {}) { return a; }
