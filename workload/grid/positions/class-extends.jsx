class K extends mix(<A>{foo()}</A>) { m() { return <A>{foo()}</A>; } }
