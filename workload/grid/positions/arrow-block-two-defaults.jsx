const f = (a = <A>{foo()}</A>, b = <A>{foo()}</A>) => { const c = <A>{foo()}</A>; return [a, b, c]; };
