export {};
export * from './x';
export { a as b } from './y';
