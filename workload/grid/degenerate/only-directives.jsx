'use client';
'use strict';
"use asm";
