import 'side-effect';
import { Fragment } from 'vue';
import * as V from 'vue';
