'use strict';
