if (false) { <A>{foo()}</A> }
function never() { return; <B>{bar()}</B> }
