'use client';
const a = <A>{foo()}</A>;
