function f() {}
const g = () => {};
class K { m() {} static {} }
const o = { m() {}, get g() { return 1 } };
