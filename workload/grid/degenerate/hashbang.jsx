#!/usr/bin/env node
const a = <A>{foo()}</A>;
