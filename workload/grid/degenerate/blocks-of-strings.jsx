{ 'a'; 'b'; }
if (c) { 'only'; }
switch (k) { case 1: 'one'; 'two'; default: 'd'; }
label: { 'x' }
for (;;) { 'loop'; break; }
