function f() { 'use strict' }
const g = () => { 'use strict'; };
class K { m() { 'use strict' } static { 'x'; } }
