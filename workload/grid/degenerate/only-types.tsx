type A = string;
interface B { a: A }
declare const c: B;
export type { B };
