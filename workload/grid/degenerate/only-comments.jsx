// nothing here
/* @jsx h */
/** doc */
