function f() { 'use strict'; return <A>{foo()}</A>; }
const g = function () { 'use strict'; 'second'; const a = <B>{bar()}</B>; return a; };
