'use client';
'use strict';
import { h } from 'vue';
export default <A>{foo()}</A>;
