<A>{foo()}</A>
