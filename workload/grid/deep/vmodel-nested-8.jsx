const a = <input v-model={<input v-model={<input v-model={<input v-model={<input v-model={<input v-model={<input v-model={<input v-model={x} />} />} />} />} />} />} />} />;
