const d = <A a=<B b=<B b=<B b=<B b=<B b=<B b=<B b=<B b=<B b=<B b=<B b=<B b=<c/>/>/>/>/>/>/>/>/>/>/>/>/>/>;
