import { defineComponent as dc, defineComponent } from "vue";
import * as V from "vue";
dc((p: { a: 1 }) => {});
V.defineComponent((p: { a: 1 }) => {});
defineComponent((p: { a: 1 }) => {});
