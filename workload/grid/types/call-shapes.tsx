import { defineComponent, SetupContext } from "vue";
const o = { x: 1 }; const arr = [o];
const C1 = defineComponent((p: { a: 1 }) => {}, { name: 'N', props: {} });
const C2 = defineComponent((p: { a: 1 }) => {}, o);
const C3 = defineComponent((p: { a: 1 }) => {}, ...arr);
const C4 = defineComponent(...arr);
const C5 = defineComponent();
const C6 = defineComponent({ setup() {} });
const C7 = defineComponent(function named(p: { a: 1 }, c: SetupContext<{ (e: 'x'): void }>) {}, { emits: ['y'], ['name']: 'Z' });
let C8; C8 = defineComponent((p: { a: 1 }) => {});
const { C9 } = defineComponent((p: { a: 1 }) => {});
export default defineComponent((p: { a: 1 }) => {});
function scope() { const defineComponent = (x: any) => x; return defineComponent((p: { a: 1 }) => {}); }
const C10 = defineComponent(async (p: { a: 1 }) => {}), C11 = defineComponent((p) => {}), C12 = defineComponent((...r: [{ a: 1 }]) => {});
