import { defineComponent, SetupContext } from "vue";
interface N { next: N; v: number }
defineComponent((p: N) => {});
