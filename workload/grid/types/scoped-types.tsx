import { defineComponent, SetupContext } from "vue";
type T = { top: string };
function f() { type T = { inner: number }; return defineComponent((p: T) => {}); }
const g = () => { interface T { arrow: boolean } return defineComponent((p: T) => {}); };
defineComponent((p: T) => {});
interface M { a: 1 } interface M { b: 2 }
defineComponent((p: M) => {});
defineComponent((p: Later) => {});
type Later = { l: 1 };
