import { defineComponent, SetupContext } from "vue";
type T = [string, number?, ...boolean[]]; interface I { a: string; 'b-c': number; m(): void; [k: string]: any }
defineComponent((p: { a: T[0]; b: T[1]; c: T[9]; d: T[number]; e: I['a' | 'b-c']; f: I[string]; g: I['m']; h: string[][number]; i: Array<Date>[0]; j: I[number]; k: { x: 1 }['x']; l: T[-1]; m: T[1.5] }) => {});
