import { defineComponent, SetupContext } from "vue";
import type { Ext } from './x';
defineComponent((p: Ext) => {});
defineComponent((p: Unknown<string>) => {});
defineComponent((p: string) => {});
defineComponent((p: Ext['a']) => {});
defineComponent((p: Pick<Ext, Keys>) => {});
defineComponent((p: {}, c: SetupContext<Ext>) => {});
defineComponent((p: { [x + y]: 1 }) => {});
