import { defineComponent, SetupContext } from "vue";
interface A { b: B } interface B { a: A }
defineComponent((p: A & B) => {});
