import { defineComponent, SetupContext } from "vue";
defineComponent((p: { [k: string]: number; 1: string; [Symbol.iterator]: any; "x-y"?: boolean; [`t`]: 1; get g(): string; set s(v: number); m?(): void; new (): X; (): Y; readonly r: Date }) => {});
