import { defineComponent, SetupContext } from "vue";
type T0 = T1 & T1;
type T1 = T2 & T2;
type T2 = T3 & T3;
type T3 = T4 & T4;
type T4 = T5 & T5;
type T5 = T6 & T6;
type T6 = { a: string; b?: number };
defineComponent((p: T0) => {});
