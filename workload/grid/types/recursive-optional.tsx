import { defineComponent, SetupContext } from "vue";
type L = { n?: L | null };
defineComponent((p: L) => {});
