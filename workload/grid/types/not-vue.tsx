import { defineComponent } from "other";
type A = A;
defineComponent((p: A) => {});
const x = <div>{1}</div>;
