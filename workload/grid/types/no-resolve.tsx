import { defineComponent, SetupContext } from "vue";
type A = A;
const C = defineComponent((p: A) => () => <div>{p}</div>);
