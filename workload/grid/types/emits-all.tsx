import { defineComponent, SetupContext } from "vue";
type Fn = (e: 'a' | 'b', v: number) => void; interface Ev { (e: 'c'): void; d: [x: number]; 'e-f'(x: 1): void; get g(): 1 }
defineComponent((p: {}, c: SetupContext<Fn>) => {});
defineComponent((p: {}, { emit }: SetupContext<Ev>) => {});
defineComponent((p: {}, [a]: SetupContext<Fn & Ev>) => {});
defineComponent((p: {}, c: SetupContext<{ (e: string): void; (...r: ['z']): void; ([a]: 'y'): void; ({ a }: 'x'): void; (): void }>) => {});
defineComponent((p: {}, c: SetupContext) => {});
defineComponent((p: {}, c: Other<Fn>) => {});
defineComponent((p: {}, c: SetupContext<[]>) => {});
