import { defineComponent, SetupContext } from "vue";
type Tree = { kids: Tree[]; label?: string };
defineComponent((p: Tree) => {});
