const a = <x-foo>{k}</x-foo>;
const b = <X-Foo>{k}</X-Foo>;
const c = <xx-foo>{k}</xx-foo>;
const d = <x-foo-bar a={1}>{k}<X-BAR>{j}</X-BAR></x-foo-bar>;
const e = <my-x- p={q}>{k}</my-x->;
const f = <Comp><x->{k}</x-></Comp>;
