const a = <div>
hello
</div>;
const b = <Comp title="two
lines">
text
  indented
</Comp>;
const c = <p>x</p>;
