const a0 = <div>first line&#13;</div>;
const a1 = <div>first line&#xD;</div>;
const a2 = <div>first line&#10;</div>;
const a3 = <div>first line&#9;</div>;
const a4 = <div>first line&#0;</div>;
const a5 = <div>first line&#127;</div>;
const a6 = <div>first line&#x2028;</div>;
const a7 = <div>first line&#8203;</div>;
const a8 = <div>first line&#xFEFF;</div>;
const a9 = <div>first line&#x1F600;</div>;
const b0 = <div>&#13;after</div>;
const b1 = <div>&#xD;after</div>;
const b2 = <div>&#10;after</div>;
const b3 = <div>&#9;after</div>;
const b4 = <div>&#0;after</div>;
const b5 = <div>&#127;after</div>;
const b6 = <div>&#x2028;after</div>;
const b7 = <div>&#8203;after</div>;
const b8 = <div>&#xFEFF;after</div>;
const b9 = <div>&#x1F600;after</div>;
const c0 = <div>x&#13;y
  z&#13;
&#13;w</div>;
const c1 = <div>x&#xD;y
  z&#xD;
&#xD;w</div>;
const c2 = <div>x&#10;y
  z&#10;
&#10;w</div>;
const c3 = <div>x&#9;y
  z&#9;
&#9;w</div>;
const c4 = <div>x&#0;y
  z&#0;
&#0;w</div>;
const c5 = <div>x&#127;y
  z&#127;
&#127;w</div>;
const c6 = <div>x&#x2028;y
  z&#x2028;
&#x2028;w</div>;
const c7 = <div>x&#8203;y
  z&#8203;
&#8203;w</div>;
const c8 = <div>x&#xFEFF;y
  z&#xFEFF;
&#xFEFF;w</div>;
const c9 = <div>x&#x1F600;y
  z&#x1F600;
&#x1F600;w</div>;
const d0 = <textarea placeholder="type here&#13;" title="&#13;t" />;
const d1 = <textarea placeholder="type here&#xD;" title="&#xD;t" />;
const d2 = <textarea placeholder="type here&#10;" title="&#10;t" />;
const d3 = <textarea placeholder="type here&#9;" title="&#9;t" />;
const d4 = <textarea placeholder="type here&#0;" title="&#0;t" />;
const d5 = <textarea placeholder="type here&#127;" title="&#127;t" />;
const d6 = <textarea placeholder="type here&#x2028;" title="&#x2028;t" />;
const d7 = <textarea placeholder="type here&#8203;" title="&#8203;t" />;
const d8 = <textarea placeholder="type here&#xFEFF;" title="&#xFEFF;t" />;
const d9 = <textarea placeholder="type here&#x1F600;" title="&#x1F600;t" />;
const e0 = <Comp label="&#13;">&#13;</Comp>;
const e1 = <Comp label="&#xD;">&#xD;</Comp>;
const e2 = <Comp label="&#10;">&#10;</Comp>;
const e3 = <Comp label="&#9;">&#9;</Comp>;
const e4 = <Comp label="&#0;">&#0;</Comp>;
const e5 = <Comp label="&#127;">&#127;</Comp>;
const e6 = <Comp label="&#x2028;">&#x2028;</Comp>;
const e7 = <Comp label="&#8203;">&#8203;</Comp>;
const e8 = <Comp label="&#xFEFF;">&#xFEFF;</Comp>;
const e9 = <Comp label="&#x1F600;">&#x1F600;</Comp>;
