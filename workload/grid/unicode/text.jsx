const t0 = <div title="é
   é">  é
   é  {x}</div>;
const t1 = <div title="été
   été">  été
   été  {x}</div>;
const t2 = <div title="sélection-été
   sélection-été">  sélection-été
   sélection-été  {x}</div>;
const t3 = <div title="-é
   -é">  -é
   -é  {x}</div>;
const t4 = <div title="é-
   é-">  é-
   é-  {x}</div>;
const t5 = <div title="a-é-b
   a-é-b">  a-é-b
   a-é-b  {x}</div>;
const t6 = <div title="价格-单位
   价格-单位">  价格-单位
   价格-单位  {x}</div>;
const t7 = <div title="😀
   😀">  😀
   😀  {x}</div>;
const t8 = <div title="x-😀-y
   x-😀-y">  x-😀-y
   x-😀-y  {x}</div>;
const t9 = <div title="áb
   áb">  áb
   áb  {x}</div>;
const t10 = <div title="ß-ẞ
   ß-ẞ">  ß-ẞ
   ß-ẞ  {x}</div>;
const t11 = <div title="İi
   İi">  İi
   İi  {x}</div>;
const t12 = <div title="ﬁ-ﬂ
   ﬁ-ﬂ">  ﬁ-ﬂ
   ﬁ-ﬂ  {x}</div>;
const t13 = <div title="ñ_ü
   ñ_ü">  ñ_ü
   ñ_ü  {x}</div>;
const t14 = <div title="α:β
   α:β">  α:β
   α:β  {x}</div>;
