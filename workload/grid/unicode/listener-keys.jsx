const a = <div on={{ 'événement': h, été: g, '': f, 日本: e, 'ß': d, click: c }} />;
const b = <Comp nativeOn={{ 'é': h, '': g }} on={{ 'Ünï': f }} />;
const c = <div {...{ 'é': 1, '': 2, 日本: 3 }} on={{ [k]: h, 'x-é': g }} />;
const d = <div on={{ é() {}, get ü() { return f }, '😀': g }} onÉ={h} on-é={g} />;
