const a0 = <p>
  Price:
   42 EUR
</p>;
const a1 = <p>
  Price:
  　42 EUR
</p>;
const a2 = <p>
  Price:
   42 EUR
</p>;
const a3 = <p>
  Price:
   42 EUR
</p>;
const a4 = <p>
  Price:
   42 EUR
</p>;
const a5 = <p>
  Price:
  ﻿42 EUR
</p>;
const a6 = <p>
  Price:
  ​42 EUR
</p>;
const a7 = <p>
  Price:
   42 EUR
</p>;
const a8 = <p>
  Price:
  42 EUR
</p>;
const a9 = <p>
  Price:
  &nbsp;42 EUR
</p>;
const a10 = <p>
  Price:
  &#160;42 EUR
</p>;
const a11 = <p>
  Price:
  &#x3000;42 EUR
</p>;
const a12 = <p>
  Price:
  &ensp;42 EUR
</p>;
const b0 = <p>Total 
  next 
  last</p>;
const b1 = <p>Total　
  next　
  last</p>;
const b2 = <p>Total 
  next 
  last</p>;
const b3 = <p>Total 
  next 
  last</p>;
const b4 = <p>Total 
  next 
  last</p>;
const b5 = <p>Total﻿
  next﻿
  last</p>;
const b6 = <p>Total​
  next​
  last</p>;
const b7 = <p>Total 
  next 
  last</p>;
const b8 = <p>Total
  next
  last</p>;
const b9 = <p>Total&nbsp;
  next&nbsp;
  last</p>;
const b10 = <p>Total&#160;
  next&#160;
  last</p>;
const b11 = <p>Total&#x3000;
  next&#x3000;
  last</p>;
const b12 = <p>Total&ensp;
  next&ensp;
  last</p>;
const c0 = <p> 
 x 
 </p>;
const c1 = <p>　
　x　
　</p>;
const c2 = <p> 
 x 
 </p>;
const c3 = <p> 
 x 
 </p>;
const c4 = <p> 
 x 
 </p>;
const c5 = <p>﻿
﻿x﻿
﻿</p>;
const c6 = <p>​
​x​
​</p>;
const c7 = <p> 
 x 
 </p>;
const c8 = <p>
x
</p>;
const c9 = <p>&nbsp;
&nbsp;x&nbsp;
&nbsp;</p>;
const c10 = <p>&#160;
&#160;x&#160;
&#160;</p>;
const c11 = <p>&#x3000;
&#x3000;x&#x3000;
&#x3000;</p>;
const c12 = <p>&ensp;
&ensp;x&ensp;
&ensp;</p>;
const d0 = <p title=" two
 lines 
  x"> </p>;
const d1 = <p title="　two
　lines　
  x">　</p>;
const d2 = <p title=" two
 lines 
  x"> </p>;
const d3 = <p title=" two
 lines 
  x"> </p>;
const d4 = <p title=" two
 lines 
  x"> </p>;
const d5 = <p title="﻿two
﻿lines﻿
  x">﻿</p>;
const d6 = <p title="​two
​lines​
  x">​</p>;
const d7 = <p title=" two
 lines 
  x"> </p>;
const d8 = <p title="two
lines
  x"></p>;
const d9 = <p title="&nbsp;two
&nbsp;lines&nbsp;
  x">&nbsp;</p>;
const d10 = <p title="&#160;two
&#160;lines&#160;
  x">&#160;</p>;
const d12 = <p title="&ensp;two
&ensp;lines&ensp;
  x">&ensp;</p>;
