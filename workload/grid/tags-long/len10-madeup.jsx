const t0 = <blockquotx>{k0}</blockquotx>;
const u0 = <blockquotx a={a0} />;
const t1 = <figcaptiox>{k1}</figcaptiox>;
const u1 = <figcaptiox a={a1} />;
