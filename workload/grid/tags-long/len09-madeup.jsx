const t0 = <font-facx>{k0}</font-facx>;
const u0 = <font-facx a={a0} />;
