const t0 = <feComponentTransfer>{k0}</feComponentTransfer>;
const u0 = <feComponentTransfer a={a0} />;
const t1 = <feComponentTransfex>{k1}</feComponentTransfex>;
const u1 = <feComponentTransfex a={a1} />;
