const t0 = <blockquote>{k0}</blockquote>;
const u0 = <blockquote a={a0} />;
const t1 = <figcaption>{k1}</figcaption>;
const u1 = <figcaption a={a1} />;
