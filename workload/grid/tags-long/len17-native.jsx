const t0 = <feDiffuseLighting>{k0}</feDiffuseLighting>;
const u0 = <feDiffuseLighting a={a0} />;
const t1 = <feDisplacementMap>{k1}</feDisplacementMap>;
const u1 = <feDisplacementMap a={a1} />;
