const t0 = <font-face>{k0}</font-face>;
const u0 = <font-face a={a0} />;
const t1 = <font-facx>{k1}</font-facx>;
const u1 = <font-facx a={a1} />;
