const t0 = <feDiffuseLighting>{k0}</feDiffuseLighting>;
const u0 = <feDiffuseLighting a={a0} />;
const t1 = <feDiffuseLightinx>{k1}</feDiffuseLightinx>;
const u1 = <feDiffuseLightinx a={a1} />;
const t2 = <feDisplacementMap>{k2}</feDisplacementMap>;
const u2 = <feDisplacementMap a={a2} />;
const t3 = <feDisplacementMax>{k3}</feDisplacementMax>;
const u3 = <feDisplacementMax a={a3} />;
