const t0 = <altGlyphDef>{k0}</altGlyphDef>;
const u0 = <altGlyphDef a={a0} />;
const t1 = <feComposite>{k1}</feComposite>;
const u1 = <feComposite a={a1} />;
const t2 = <feMergeNode>{k2}</feMergeNode>;
const u2 = <feMergeNode a={a2} />;
const t3 = <feSpotLight>{k3}</feSpotLight>;
const u3 = <feSpotLight a={a3} />;
