const t0 = <font-face>{k0}</font-face>;
const u0 = <font-face a={a0} />;
