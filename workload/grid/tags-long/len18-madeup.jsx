const t0 = <feSpecularLightinx>{k0}</feSpecularLightinx>;
const u0 = <feSpecularLightinx a={a0} />;
