const t0 = <feDiffuseLightinx>{k0}</feDiffuseLightinx>;
const u0 = <feDiffuseLightinx a={a0} />;
const t1 = <feDisplacementMax>{k1}</feDisplacementMax>;
const u1 = <feDisplacementMax a={a1} />;
