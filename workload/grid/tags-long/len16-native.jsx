const t0 = <animateTransform>{k0}</animateTransform>;
const u0 = <animateTransform a={a0} />;
const t1 = <feConvolveMatrix>{k1}</feConvolveMatrix>;
const u1 = <feConvolveMatrix a={a1} />;
const t2 = <font-face-format>{k2}</font-face-format>;
const u2 = <font-face-format a={a2} />;
