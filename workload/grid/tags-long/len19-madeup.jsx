const t0 = <feComponentTransfex>{k0}</feComponentTransfex>;
const u0 = <feComponentTransfex a={a0} />;
