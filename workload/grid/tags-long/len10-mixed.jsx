const t0 = <blockquote>{k0}</blockquote>;
const u0 = <blockquote a={a0} />;
const t1 = <blockquotx>{k1}</blockquotx>;
const u1 = <blockquotx a={a1} />;
const t2 = <figcaption>{k2}</figcaption>;
const u2 = <figcaption a={a2} />;
const t3 = <figcaptiox>{k3}</figcaptiox>;
const u3 = <figcaptiox a={a3} />;
