const t0 = <animateTransforx>{k0}</animateTransforx>;
const u0 = <animateTransforx a={a0} />;
const t1 = <feConvolveMatriy>{k1}</feConvolveMatriy>;
const u1 = <feConvolveMatriy a={a1} />;
const t2 = <font-face-formax>{k2}</font-face-formax>;
const u2 = <font-face-formax a={a2} />;
