const t0 = <feComponentTransfer>{k0}</feComponentTransfer>;
const u0 = <feComponentTransfer a={a0} />;
