const t0 = <feSpecularLighting>{k0}</feSpecularLighting>;
const u0 = <feSpecularLighting a={a0} />;
