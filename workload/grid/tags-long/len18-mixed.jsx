const t0 = <feSpecularLighting>{k0}</feSpecularLighting>;
const u0 = <feSpecularLighting a={a0} />;
const t1 = <feSpecularLightinx>{k1}</feSpecularLightinx>;
const u1 = <feSpecularLightinx a={a1} />;
