const t0 = <altGlyphDex>{k0}</altGlyphDex>;
const u0 = <altGlyphDex a={a0} />;
const t1 = <feCompositx>{k1}</feCompositx>;
const u1 = <feCompositx a={a1} />;
const t2 = <feMergeNodx>{k2}</feMergeNodx>;
const u2 = <feMergeNodx a={a2} />;
const t3 = <feSpotLighx>{k3}</feSpotLighx>;
const u3 = <feSpotLighx a={a3} />;
