let a = [b];
var b = [a];
const u1 = <div id={a} title={b} />;
const u2 = <Comp p={a} {...b} q={[a, { b }]}>{a}{b}</Comp>;
const u3 = <div v-show={a} v-custom={[a, b]} class={a} style={b} key={a} ref={b} />;
const u4 = <Comp v-slots={a}>{b}</Comp>;
const u5 = <input v-model={a} type={b} />;
a2 = <Comp>{a}</Comp>;
