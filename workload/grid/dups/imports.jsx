import { Fragment } from 'vue';
import { Fragment as F2, createVNode, createVNode as cv, resolveComponent } from 'vue';
import * as V1 from 'vue';
import * as V2 from 'vue';
import V3, { withDirectives, vShow, vShow as show2 } from 'vue';
const a = <><Fragment><F2>{x}</F2></Fragment></>;
const b = <Comp v-show={s}>{y}</Comp>;
const c = <KeepAlive><A>{z}</A></KeepAlive>;
const d = <div {...p} {...q} class={c1} />;
