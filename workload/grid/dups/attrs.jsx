const a = <div a={1} b={2} a={3} c={4} b={5} d={6} e={7} a="8" />;
const b = <Comp a={1} b={2} a={3} c={4} b={5} d={6} e={7} a="8">{k}</Comp>;
const c = <div class="a" style={s} class={b} onClick={f} style="c" onClick={g} class={[d]} onClick={h} onInput={i} />;
const d = <div {...{ a: 1, b: 2, a: 3, c: 4, b: 5, d, e, d }} {...{ f, g, f }} />;
const e = <div on={o1} on={o2} nativeOn={n1} on={{ click: f, click: g, input: h }} />;
const f = <div a={x} {...s} a={y} {...s} a={z} b={w} />;
const g = <Comp key="k" key={k2} ref="r" ref={r2} v-slots={s1} v-slots={s2}>{k}</Comp>;
const h = <div onUpdate:modelValue={f} modelValue={m} onUpdate:modelValue={g} modelValue={n} v-model={o} />;
