import { defineComponent, SetupContext } from "vue";
interface Dup { a: string; b: number; a: boolean; c: Date; b: string[]; d?: symbol; e: 1; d: 2 }
interface Merge { a: string; m1: number } interface Merge { a: number; m2: string } interface Merge { m1: boolean; m3: null; m4: 4; m5: 5 }
type U = 'a' | 'b' | 'a' | 'c' | 'b' | 'd' | 'e' | 'f';
type Ev = { (e: 'change', v: string): void; (e: 'input'): void; (e: 'change', v: number): void; (e: 'blur'): void; (e: 'input', x: 1): void; (e: 'focus'): void; (e: 'k'): void };
interface EvBase { (e: 'change'): void; (e: 'base'): void } interface EvExt extends EvBase { (e: 'change'): void; (e: 'ext'): void; (e: 'base', x: 1): void; (e: 'more'): void }
const A = defineComponent((p: Dup, c: SetupContext<Ev>) => {});
const B = defineComponent((p: Merge, c: SetupContext<EvExt>) => {});
const C = defineComponent((p: Pick<Dup, 'a' | 'a' | 'b' | 'c' | 'b'> & Omit<Merge, 'a' | 'a'>, c: SetupContext<(e: U) => void>) => {});
const D = defineComponent((p: { k: U; a?: string; b?: number } = { a: 'x', b: 1, a: 'y', zz: 1, yy: 2, xx: 3, ww: 4, vv: 5, zz: 6 }) => {});
const E = defineComponent((p: { a?: string } = { a: 'x', b: 1, c: 2, d: 3, e: 4, f: 5, g() {}, get h() { return 1 } }) => {});
const F = defineComponent((p: Dup & Merge & Dup, c: SetupContext<{ change: []; input: [x: number]; change: [y: string]; blur: []; focus: []; k: [] }>) => {});
const G = defineComponent((p: { u: U; v: 'x' | 1 | 'x' | true | 1 | null }) => {});
interface Wide { v: string; w: Date; v: number | boolean | (() => void) | symbol; w: string[] | null | bigint | object }
interface WideBase { v: string; k?: 1 } interface WideExt extends WideBase { v: number | boolean | Date | RegExp | Map<string, number>; k: 'a' | true | null | 2n }
const H = defineComponent((p: Wide) => {});
const I = defineComponent((p: WideExt) => {});
const J = defineComponent((p: { v: string } & { v: number | boolean | object | symbol } & { v: Function | Date | string[] | Promise<void> }) => {});
const K = defineComponent((p: { m(): void; m: string | number | boolean | null; get g(): number; g: string | Date | RegExp }) => {});
