const a = <Comp v-models={[[x], [y]]} />;
const b = <Comp v-models={[[x, "foo"], [y, "foo"], [z, "bar"], [w]]} />;
const c = <input v-models={[[x, "a"], [y, "b"], [z, "a"], [u, "c"], [v, "b"], [t, "d"]]} />;
const d = <Comp v-models={[[x, dyn], [y, dyn], [z, "s"], [w, "s"], [q]]} />;
const e = <Comp v-model={x} v-model={y} v-model:foo={z} v-model:foo={w} v-model:bar={u} />;
const f = <Comp v-models={[[x, "a", ["m"]], [y, "a", ["n"]], [z, "b"], [z2, "c"], [z3, "d"], [z4, "e"]]} />;
const g = <input v-model={x} v-models={[[y], [z, "value"], [w, "value"]]} />;
const h = <Comp v-models={[[x], [y], [z], [w, "k1"], [w, "k2"], [w, "k3"], [w, "k4"]]} />;
