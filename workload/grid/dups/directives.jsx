const a = <div v-show={x} v-show={y} v-custom={z} v-custom={w} v-other:arg={u} v-other:arg2={v} />;
const b = <div v-foo_a_b_a_c_b_d={x} />;
const c = <div v-foo={[x, "arg", ["m", "n", "m", "o", "n", "p"]]} />;
const d = <input v-model_trim_lazy_trim_number_lazy={x} />;
const e = <Comp v-model:val_a_b_a_c={x} />;
const f = <div v-html={h1} v-html={h2} v-text={t1} v-text={t2} innerHTML={h3} />;
const g = <div v-a={1} v-b={2} v-a={3} v-c={4} v-b={5} v-d={6} vA={7} />;
